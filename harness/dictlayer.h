// dictlayer — one uniform way to build / load / describe the 13 dictionary kinds, following the
// API contract the repository's own drivers use (DESIGN §2.7).
#pragma once
#include "StringDictionary.h"
#include "StringDictionaryHASHRPDACBlocks.h"
#include "sim/gen.h"
#include "sim/simthread.h"
#include <istream>

enum Kind { K_PFC = 0, K_RPFC, K_HTFC, K_HHTFC, K_RPHTFC, K_RPDAC, K_HASHHF, K_HASHRPF, K_HASHUFFDAC, K_HASHRPDAC, K_BLOCKS, K_FMINDEX, K_XBW, K_COUNT };
static const char *kind_name(int k) {
  static const char *n[] = {"PFC", "RPFC", "HTFC", "HHTFC", "RPHTFC", "RPDAC", "HASHHF", "HASHRPF", "HASHUFFDAC", "HASHRPDAC", "HASHRPDACBlocks", "FMINDEX", "XBW"};
  return (k >= 0 && k < K_COUNT) ? n[k] : "?";
}
static int kind_from(const std::string &s) { for (int k = 0; k < K_COUNT; k++) if (s == kind_name(k)) return k; return -1; }
static uint32_t kind_tag(int k) {
  static const uint32_t t[] = {PFC, RPFC, HTFC, HHTFC, RPHTFC, RPDAC, HASHHF, HASHRPF, HASHUFFDAC, HASHRPDAC, HASHRPDACBlocks, FMINDEX, DXBW};
  return t[k];
}
static bool is_hash_kind(int k) { return k >= K_HASHHF && k <= K_BLOCKS; }
static bool is_fc_kind(int k) { return k <= K_RPHTFC; }
static bool takes_load_option(int k) { return k == K_HASHHF || k == K_HASHRPF || k == K_HASHRPDAC || k == K_BLOCKS; }

struct Params {
  int bucket = 4;         // front-coding kinds
  int overhead = 20;      // hash kinds
  bool sparse = false;    // FMINDEX: compressed (RRR) bitmaps
  int bs = 20;            // FMINDEX: bitmap sampling
  int bwt = 8;            // FMINDEX: BWT sampling (0 = none => no substring search)
  unsigned long cut = 64; // blocks
  int threads = 1;        // blocks
  unsigned long memalloc = 32768; // S5 knob
};
static std::string params_spec(int kind, const Params &p) {
  char b[200];
  if (is_fc_kind(kind)) snprintf(b, sizeof b, "bucket=%d,memalloc=%lu", p.bucket, p.memalloc);
  else if (kind == K_BLOCKS) snprintf(b, sizeof b, "overhead=%d,cut=%lu,threads=%d", p.overhead, p.cut, p.threads);
  else if (is_hash_kind(kind)) snprintf(b, sizeof b, "overhead=%d,memalloc=%lu", p.overhead, p.memalloc);
  else if (kind == K_FMINDEX) snprintf(b, sizeof b, "sparse=%d,bs=%d,bwt=%d", (int)p.sparse, p.bs, p.bwt);
  else b[0] = 0;
  return b;
}

// S5: the MEMALLOC knob lives in common.h (g_memalloc / libcsd_verif_memalloc)

// Parameters are a closed grid indexed by an integer, so that (set, kind, param index) is a catalogue triple.
static const int PARAM_GRID = 12;
static Params param_grid(int kind, int idx, size_t n) {
  Params p;
  static const int buckets[] = {2, 3, 4, 8, 16, 5, 2, 32, 7, 4, 2, 16};
  static const int ovs[] = {0, 10, 20, 50, 100, 5, 25, 75, 20, 0, 100, 33};
  static const unsigned long cuts[] = {1, 8, 16, 64, 256, 1024, 1ul << 20, 32, 128, 4, 2, 512};
  static const unsigned long mems[] = {32768, 1, 2, 7, 64, 4096, 32768, 3, 16, 1, 256, 32768};
  int i = idx % PARAM_GRID;
  p.bucket = buckets[i];
  if (i == 5) p.bucket = (int)n + 1;          // one bucket holds everything
  if (i == 9 && n >= 2) p.bucket = (int)n;     // n is exactly one bucket
  if (p.bucket < 2) p.bucket = 2;
  p.overhead = ovs[i];
  p.cut = cuts[i];
  p.threads = 1 + (i % 3);
  p.sparse = (i % 2) == 1;
  static const int bss[] = {20, 4, 32, 16, 8, 64, 20, 5, 12, 20, 2, 40};
  p.bs = bss[i];
  static const int bwts[] = {8, 0, 1, 4, 16, 64, 2, 0, 32, 3, 8, 5};
  p.bwt = bwts[i];
  p.memalloc = mems[i];
  (void)kind;
  return p;
}

enum Op { O_LOCATE = 0, O_EXTRACT, O_LOCPREFIX, O_EXTPREFIX, O_LOCSUBSTR, O_EXTSUBSTR, O_LOCRANK, O_EXTRANK, O_TABLE, O_COUNT };
static const char *op_name(int o) { static const char *n[] = {"locate", "extract", "locatePrefix", "extractPrefix", "locateSubstr", "extractSubstr", "locateRank", "extractRank", "extractTable"}; return n[o]; }
// the table of DESIGN §2.7; `loaded` matters for XBW only (a freshly built XBW object has no xbw)
static bool supported(int kind, int op, const Params &p) {
  if (op == O_LOCATE || op == O_EXTRACT) return true;
  switch (kind) {
  case K_PFC: case K_RPFC: case K_HTFC: case K_HHTFC: case K_RPHTFC: case K_RPDAC:
    return op == O_LOCPREFIX || op == O_EXTPREFIX || op == O_LOCRANK || op == O_EXTRANK || op == O_TABLE;
  case K_HASHHF: case K_HASHRPF: case K_HASHUFFDAC: case K_HASHRPDAC: case K_BLOCKS:
    return op == O_TABLE;
  case K_FMINDEX:
    if (op == O_LOCSUBSTR || op == O_EXTSUBSTR) return p.bwt > 0;
    return true;
  case K_XBW:
    return op != O_TABLE;
  }
  return false;
}

// ---- construction, exactly as Build.cpp does it ------------------------------------------------
static StringDictionary *build_dict(int kind, const std::vector<std::string> &v, const Params &p) {
  size_t len;
  g_memalloc = p.memalloc;
  unsigned char *buf = flatten(v, &len, 1); // hash kinds: one spare trailing NUL, as Build.cpp allocates
  StringDictionary *d = nullptr;
  switch (kind) {
  case K_PFC: d = new StringDictionaryPFC(new IteratorDictStringPlain(buf, len), (uint)p.bucket); break;
  case K_RPFC: d = new StringDictionaryRPFC(new IteratorDictStringPlain(buf, len), (uint)p.bucket); break;
  case K_HTFC: d = new StringDictionaryHTFC(new IteratorDictStringPlain(buf, len), (uint)p.bucket); break;
  case K_HHTFC: d = new StringDictionaryHHTFC(new IteratorDictStringPlain(buf, len), (uint)p.bucket); break;
  case K_RPHTFC: d = new StringDictionaryRPHTFC(new IteratorDictStringPlain(buf, len), (uint)p.bucket); break;
  case K_RPDAC: d = new StringDictionaryRPDAC(new IteratorDictStringPlain(buf, len)); break;
  case K_HASHHF: d = new StringDictionaryHASHHF(new IteratorDictStringPlain(buf, len), (uint)len, p.overhead); break;
  case K_HASHRPF: d = new StringDictionaryHASHRPF(new IteratorDictStringPlain(buf, len), (uint)len, p.overhead); break;
  case K_HASHUFFDAC: d = new StringDictionaryHASHUFFDAC(new IteratorDictStringPlain(buf, len), (uint)len, p.overhead); break;
  case K_HASHRPDAC: d = new StringDictionaryHASHRPDAC(new IteratorDictStringPlain(buf, len), (uint)len, p.overhead); break;
  case K_BLOCKS: {
    // the parallel build runs under the thread simulator with one fixed schedule: the history harness studies
    // call order, streams and heap contents -- its worker processes must stay a pure function of the seed
    // (schedules of this build are the business of blocks_sim, C09/C11)
    bool simulate = !sim_active(); // also for threads=1: the pool then has one worker next to the constructing thread
    if (simulate) { SimConfig sc; sc.strategy = ST_LOWFIRST; sc.step_cap = 2000000; sc.fair_after = 2000000; sc.reap_exits = true; sim_begin(&sc); }
    d = new StringDictionaryHASHRPDACBlocks(new IteratorDictStringPlain(buf, len), len, p.overhead, p.cut, p.threads);
    if (simulate) { SimResult sr; sim_end(&sr); }
    break; }
  case K_FMINDEX: { IteratorDictStringPlain *it = new IteratorDictStringPlain(buf, len); d = new StringDictionaryFMINDEX(it, p.sparse, (uint)p.bs, (uint)p.bwt); delete it; break; }
  case K_XBW: { IteratorDictStringPlain *it = new IteratorDictStringPlain(buf, len - 1); d = new StringDictionaryXBW(it); delete it; break; }
  }
  g_memalloc = 32768;
  return d;
}

// own loader of a kind; opt is only passed where the signature takes it
static StringDictionary *load_own(int kind, std::istream &in, uint opt) {
  switch (kind) {
  case K_PFC: return StringDictionaryPFC::load(in);
  case K_RPFC: return StringDictionaryRPFC::load(in);
  case K_HTFC: return StringDictionaryHTFC::load(in);
  case K_HHTFC: return StringDictionaryHHTFC::load(in);
  case K_RPHTFC: return StringDictionaryRPHTFC::load(in);
  case K_RPDAC: return StringDictionaryRPDAC::load(in);
  case K_HASHHF: return StringDictionaryHASHHF::load(in, opt);
  case K_HASHRPF: return StringDictionaryHASHRPF::load(in, opt);
  case K_HASHUFFDAC: return StringDictionaryHASHUFFDAC::load(in);
  case K_HASHRPDAC: return StringDictionaryHASHRPDAC::load(in, opt);
  case K_BLOCKS: return StringDictionaryHASHRPDACBlocks::load(in, opt);
  case K_FMINDEX: return StringDictionaryFMINDEX::load(in);
  case K_XBW: return StringDictionaryXBW::load(in);
  }
  return nullptr;
}
