// Shared helpers for the simulation harnesses: spec strings, JSON result lines, fatal handlers.
#pragma once
#include "../sim/prng.h"
#include "../sim/simthread.h"
#include <map>
#include <signal.h>
#include <sstream>
#include <stdio.h>
#include <stdlib.h>
#include <string.h>
#include <string>
#include <unistd.h>
#include <vector>

// ---- S5: the MEMALLOC knob (only consulted by /repo when built with -DLIBCSD_VERIF) ----------------
static unsigned long g_memalloc = 32768;
extern "C" unsigned long libcsd_verif_memalloc(void) { return g_memalloc; }

// ---- spec strings: "k=v,k=v,trace=1:0:2" --------------------------------------------------------
typedef std::map<std::string, std::string> Spec;
static inline Spec parse_spec(const std::string &s) {
  Spec m; size_t i = 0;
  while (i < s.size()) {
    size_t j = s.find(',', i); if (j == std::string::npos) j = s.size();
    std::string kv = s.substr(i, j - i); size_t e = kv.find('=');
    if (e != std::string::npos) m[kv.substr(0, e)] = kv.substr(e + 1);
    i = j + 1;
  }
  return m;
}
static inline long long spec_i(const Spec &m, const char *k, long long dflt) {
  auto it = m.find(k); if (it == m.end()) return dflt; return strtoll(it->second.c_str(), nullptr, 0);
}
static inline uint64_t spec_u(const Spec &m, const char *k, uint64_t dflt) {
  auto it = m.find(k); if (it == m.end()) return dflt; return strtoull(it->second.c_str(), nullptr, 0);
}
static inline std::string spec_s(const Spec &m, const char *k, const char *dflt) {
  auto it = m.find(k); if (it == m.end()) return dflt; return it->second;
}
static inline std::vector<uint32_t> parse_trace(const std::string &s) {
  std::vector<uint32_t> v; size_t i = 0;
  while (i < s.size()) { size_t j = s.find(':', i); if (j == std::string::npos) j = s.size(); if (j > i) v.push_back((uint32_t)strtoul(s.substr(i, j - i).c_str(), nullptr, 10)); i = j + 1; }
  return v;
}
static inline std::string trace_str(const uint32_t *t, size_t n) {
  // trailing zeros are implied
  while (n && t[n - 1] == 0) n--;
  std::string s; char b[16];
  for (size_t i = 0; i < n; i++) { snprintf(b, sizeof b, i ? ":%u" : "%u", t[i]); s += b; }
  return s;
}
static inline const char *strategy_name(int s) {
  static const char *n[] = {"random", "sticky", "pct", "starve", "lowfirst", "highfirst", "trace", "rr", "pfrr"};
  return (s >= 0 && s <= 8) ? n[s] : "?";
}
static inline int strategy_from(const std::string &s) {
  for (int i = 0; i <= 8; i++) if (s == strategy_name(i)) return i;
  return ST_RANDOM;
}
static inline std::string hex64(uint64_t v) { char b[20]; snprintf(b, sizeof b, "%016llx", (unsigned long long)v); return b; }
static inline std::string jstr(const std::string &s) {
  std::string o = "\""; char b[8];
  for (unsigned char c : s) { if (c == '"' || c == '\\') { o += '\\'; o += (char)c; } else if (c < 0x20 || c >= 0x7f) { snprintf(b, sizeof b, "\\u%04x", c); o += b; } else o += (char)c; }
  return o + "\"";
}

// swarm draw of scheduler configuration (DESIGN §2.1: pct 40, sticky 30, starve 10, random 10, extremal 10)
static inline void draw_sched(Prng &r, SimConfig &c, int nthreads, int expected_len, bool allow_pcguard) {
  c.expected_len = expected_len;
  uint64_t x = r.below(100);
  if (x < 40) { c.strategy = ST_PCT; c.pct_depth = (int)r.range(1, 4); }
  else if (x < 70) { c.strategy = ST_STICKY; static const int dens[] = {2, 4, 8, 16}; c.sticky_den = dens[r.below(4)]; }
  else if (x < 80) { c.strategy = ST_STARVE; c.victim = (int)r.below((uint64_t)nthreads); }
  else if (x < 86) c.strategy = ST_RANDOM;
  else if (x < 90) c.strategy = ST_RR;
  else if (x < 94) c.strategy = ST_PFRR;
  else c.strategy = r.chance(1, 2) ? ST_LOWFIRST : ST_HIGHFIRST;
  c.spurious_budget = r.chance(1, 2) ? 0 : (int)r.range(1, 3);
  c.spurious_permille = (int)r.range(5, 80);
  c.pcguard_permille = 0;
  if (allow_pcguard && r.chance(1, 4)) { static const int pm[] = {5, 20, 50, 200}; c.pcguard_permille = pm[r.below(4)]; }
  c.pcguard_seed = r.next();
  c.seed = r.next();
}
static inline std::string sched_spec(const SimConfig &c) {
  std::ostringstream o;
  o << "strategy=" << strategy_name(c.strategy) << ",pctd=" << c.pct_depth << ",explen=" << c.expected_len << ",stickyden=" << c.sticky_den
    << ",victim=" << c.victim << ",spur=" << c.spurious_budget << ",spurpm=" << c.spurious_permille << ",pcg=" << c.pcguard_permille
    << ",pcgseed=" << c.pcguard_seed << ",sseed=" << c.seed;
  return o.str();
}
static inline void sched_from_spec(const Spec &m, SimConfig &c, std::vector<uint32_t> &tracebuf) {
  c.strategy = strategy_from(spec_s(m, "strategy", "random"));
  c.pct_depth = (int)spec_i(m, "pctd", 1); c.expected_len = (int)spec_i(m, "explen", 200); c.sticky_den = (int)spec_i(m, "stickyden", 8);
  c.victim = (int)spec_i(m, "victim", 1); c.spurious_budget = (int)spec_i(m, "spur", 0); c.spurious_permille = (int)spec_i(m, "spurpm", 20);
  c.pcguard_permille = (int)spec_i(m, "pcg", 0); c.pcguard_seed = spec_u(m, "pcgseed", 0); c.seed = spec_u(m, "sseed", 0);
  if (m.count("trace")) { tracebuf = parse_trace(m.at("trace")); c.strategy = ST_TRACE; c.trace = tracebuf.data(); c.trace_len = tracebuf.size(); }
}

static inline void print_log(FILE *f) {
  size_t n; const SimEvent *e = sim_log(&n);
  for (size_t i = 0; i < n; i++) fprintf(f, "  #%zu step=%u T%u %s obj=%d aux=%d\n", i, e[i].step, (unsigned)e[i].thread, sim_opname(e[i].op), e[i].obj, e[i].aux);
}

// ---- death callback: when a sanitizer kills the process, leave the spec and the decision trace of
// the run in flight on the result fd so that the supervisor can minimise and replay it.  The callback
// itself lives in sim/simthread.cpp (uninstrumented); the harness only keeps its inputs current. ----
#include <sys/resource.h>
static std::string *g_death_spec = nullptr;
static unsigned long long g_death_run = 0;
static int g_death_fd = 1;
static inline void death_info_update() { sim_set_death_info(g_death_spec ? g_death_spec->c_str() : nullptr, g_death_run, g_death_fd); }
static inline void install_death_cb(std::string *spec) {
  struct rlimit rl = {0, 0}; setrlimit(RLIMIT_CORE, &rl); // never dump a sanitizer-sized core
  g_death_spec = spec;
  sim_install_death_cb();
}

// ---- address-space layout: fixed, so that two processes executing the same history see the same
// addresses (an out-of-bounds read that picks up a pointer then reads the same value everywhere) ----
#include <sys/personality.h>
static inline void disable_aslr(char **argv) {
  int cur = personality(0xffffffff);
  if (cur == -1 || (cur & ADDR_NO_RANDOMIZE)) return;
  if (getenv("VERIF_ASLR_KEEP")) return;
  if (personality(cur | ADDR_NO_RANDOMIZE) == -1) return;
  setenv("VERIF_ASLR_KEEP", "1", 1); // never loop
  execv("/proc/self/exe", argv);
}
