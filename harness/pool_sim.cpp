// pool_sim — C10 (and C11 in the tsan variant): the unmodified parallel/Worker.hpp under simthread.
// DESIGN.md §4.1 C10.
#include "common.h"
#include "parallel/Worker.hpp"
#include <atomic>

struct PoolShape {
  int pattern = 0;    // 0=A add*,stop,wait  1=B add*,wait-all-done,stop,wait  2=C last task stops (holding user mutex)
                      // 3=D nested adds, B-style  4=E A-style with producer lock/unlock pairs between adds  5=F nested adds, A-style
  int workers = 1;
  int tasks = 1;
  int nested = 0;     // D/F: the first `nested` tasks each add one child
  int yield_mask = 0; // bit i: task i yields inside its body
};
static const char *pattern_name(int p) { static const char *n[] = {"A", "B", "C", "D", "E", "F"}; return n[p]; }

struct PoolState {
  std::mutex um;
  std::condition_variable ucv;
  int total = 0;           // parents + children
  int count[32] = {0};
  int inflight[32] = {0};
  uint64_t add_ret[32] = {0}; // event number at which add_task returned (0 = never)
  uint64_t stop_inv = 0;
  int overlap = 0;
  int done = 0;
};

static void task_body(PoolState *st, WorkerPool *wp, const PoolShape *sh, int id);

static void add(PoolState *st, WorkerPool *wp, const PoolShape *sh, int id) {
  wp->add_task([st, wp, sh, id]() { task_body(st, wp, sh, id); });
  st->add_ret[id] = sim_now();  // written by the adding thread only; read after the run
}

static void task_body(PoolState *st, WorkerPool *wp, const PoolShape *sh, int id) {
  sim_note(100, id);
  {
    std::lock_guard<std::mutex> lg(st->um);
    if (st->inflight[id]) st->overlap++;
    st->inflight[id] = 1;
    st->count[id]++;
  }
  if (sh->yield_mask & (1 << id)) sim_yield();
  if ((sh->pattern == 3 || sh->pattern == 5) && id < sh->nested) add(st, wp, sh, sh->tasks + id);
  bool last = false;
  {
    std::lock_guard<std::mutex> lg(st->um);
    st->inflight[id] = 0;
    st->done++;
    last = (st->done == st->total);
    if (sh->pattern == 2 && last) {
      st->stop_inv = sim_now();
      wp->stop_all_workers(); // the pattern of test/parallel_test.cpp: stop while holding the user mutex
    }
  }
  if (sh->pattern == 1 || sh->pattern == 3) st->ucv.notify_all();
  sim_note(101, id);
}

struct RunOut { std::string verdict, cls, detail; SimResult res; };

static PoolState *g_st; // for the fatal callback
static PoolShape g_sh;
static std::string g_spec;
static uint64_t g_run_index, g_run_seed;
static bool g_verbose = false;

static std::string shape_spec(const PoolShape &s) {
  std::ostringstream o;
  o << "pattern=" << pattern_name(s.pattern) << ",workers=" << s.workers << ",tasks=" << s.tasks << ",nested=" << s.nested << ",ymask=" << s.yield_mask;
  return o.str();
}

static void emit(const RunOut &o) {
  size_t tl; const uint32_t *t = sim_trace(&tl);
  printf("{\"run\":%llu,\"seed\":%llu,\"harness\":\"pool\",\"spec\":%s,\"verdict\":%s,\"class\":%s,\"detail\":%s,"
         "\"steps\":%llu,\"switches\":%llu,\"sig\":\"%s\",\"threads\":%d,"
         "\"faults\":{\"spurious\":%llu,\"signal_choice\":%llu,\"preempt\":%llu,\"timeouts\":%llu},"
         "\"probes\":{\"lost_notify_window\":%d,\"notify_no_waiter\":%d,\"contended_locks\":%d},\"clock_ns\":%llu,\"trace\":\"%s\"}\n",
         (unsigned long long)g_run_index, (unsigned long long)g_run_seed, jstr(g_spec).c_str(), jstr(o.verdict).c_str(), jstr(o.cls).c_str(),
         jstr(o.detail).c_str(), (unsigned long long)o.res.steps, (unsigned long long)o.res.switches, hex64(o.res.sig).c_str(), o.res.threads,
         (unsigned long long)o.res.spurious_fired, (unsigned long long)o.res.signal_choices, (unsigned long long)o.res.preempts,
         (unsigned long long)o.res.timeouts, o.res.lost_notify_window, o.res.bcast_no_waiter, o.res.contended_locks,
         (unsigned long long)o.res.clock_ns_advanced, (o.verdict == "ok" && !g_verbose) ? "" : trace_str(t, tl).c_str());
  fflush(stdout);
}

static void on_fatal(const SimResult *r) {
  RunOut o; o.res = *r; o.verdict = "violation";
  o.cls = r->outcome == SO_DEADLOCK ? "deadlock" : r->outcome == SO_STEPCAP ? "stepcap" : "misuse";
  o.detail = r->detail;
  if (g_verbose) print_log(stdout);
  emit(o);
}

static RunOut run_pool(const PoolShape &sh, SimConfig cfg) {
  PoolState st; g_st = &st; g_sh = sh;
  int children = (sh.pattern == 3 || sh.pattern == 5) ? sh.nested : 0;
  st.total = sh.tasks + children;
  RunOut o;
  sim_begin(&cfg);
  {
    WorkerPool wp(sh.workers);
    std::mutex pm;
    for (int i = 0; i < sh.tasks; i++) {
      add(&st, &wp, &sh, i);
      if (sh.pattern == 4) { pm.lock(); pm.unlock(); }
    }
    if (sh.pattern == 1 || sh.pattern == 3) {
      std::unique_lock<std::mutex> ul(st.um);
      st.ucv.wait(ul, [&st]() { return st.done == st.total; });
    }
    if (sh.pattern != 2) { st.stop_inv = sim_now(); wp.stop_all_workers(); }
    wp.wait_workers();
    sim_note(102, 0);
  }
  sim_end(&o.res);
  // ---- oracle over the recorded history ----
  o.verdict = "ok";
  for (int i = 0; i < st.total && o.verdict == "ok"; i++) {
    bool before_stop = st.add_ret[i] != 0 && st.stop_inv != 0 && st.add_ret[i] < st.stop_inv;
    if (st.count[i] > 1) { o.verdict = "violation"; o.cls = "task_twice"; o.detail = "task " + std::to_string(i) + " executed " + std::to_string(st.count[i]) + " times"; }
    else if (before_stop && st.count[i] == 0) { o.verdict = "violation"; o.cls = "task_lost"; o.detail = "task " + std::to_string(i) + " handed over before stop was never executed"; }
  }
  if (o.verdict == "ok" && st.overlap) { o.verdict = "violation"; o.cls = "self_overlap"; o.detail = "a task ran concurrently with itself"; }
  return o;
}

// swarm derivation of one run from (base_seed, index); small shapes get half of all runs
static void derive(uint64_t base, uint64_t index, PoolShape &sh, SimConfig &cfg, bool pcguard_ok) {
  g_run_seed = mix64(mix64(base, 0xC10), index);
  Prng r; r.seed(g_run_seed);
  sh = PoolShape();
  bool small = r.chance(1, 2);
  sh.workers = small ? (int)r.range(1, 2) : (int)r.range(1, 6);
  sh.tasks = small ? (int)r.range(0, 3) : (int)r.range(0, 8);
  sh.pattern = (int)r.below(6);
  if (sh.pattern == 2 && sh.tasks == 0) sh.tasks = 1;
  if (sh.pattern == 3 || sh.pattern == 5) { if (sh.tasks == 0) sh.tasks = 1; sh.nested = (int)r.range(1, sh.tasks); }
  sh.yield_mask = r.chance(1, 2) ? 0 : (int)r.below(1u << (sh.tasks ? sh.tasks : 1));
  cfg = SimConfig();
  int explen = 40 + 25 * sh.workers + 30 * (sh.tasks + sh.nested);
  draw_sched(r, cfg, sh.workers + 1, explen, pcguard_ok);
}

int main(int argc, char **argv) {
  disable_aslr(argv);
  setvbuf(stdout, nullptr, _IOLBF, 0);
  sim_set_fatal_cb(on_fatal);
  install_death_cb(&g_spec);
  if (argc < 2) { fprintf(stderr, "usage: pool_sim run <base> <first> <count> [nopcg] | replay <spec> | one <base> <index>\n"); return 2; }
  std::string mode = argv[1];
  if (mode == "run" && argc >= 5) {
    uint64_t base = strtoull(argv[2], 0, 0), first = strtoull(argv[3], 0, 0), count = strtoull(argv[4], 0, 0);
    bool pcg = !(argc > 5 && !strcmp(argv[5], "nopcg"));
    for (uint64_t i = first; i < first + count; i++) {
      PoolShape sh; SimConfig cfg; g_run_index = i; g_death_run = i;
      derive(base, i, sh, cfg, pcg);
      cfg.keep_log = true;
      g_spec = shape_spec(sh) + "," + sched_spec(cfg); death_info_update();
      printf("{\"begin\":%llu}\n", (unsigned long long)i); fflush(stdout);
      RunOut o = run_pool(sh, cfg);
      emit(o);
    }
    return 0;
  }
  if ((mode == "one" && argc >= 4) || (mode == "replay" && argc >= 3)) {
    PoolShape sh; SimConfig cfg; std::vector<uint32_t> tb;
    g_verbose = true;
    if (mode == "one") { g_run_index = strtoull(argv[3], 0, 0); g_death_run = g_run_index; derive(strtoull(argv[2], 0, 0), g_run_index, sh, cfg, true); }
    else {
      Spec m = parse_spec(argv[2]);
      std::string p = spec_s(m, "pattern", "A"); sh.pattern = p[0] - 'A';
      sh.workers = (int)spec_i(m, "workers", 1); sh.tasks = (int)spec_i(m, "tasks", 1); sh.nested = (int)spec_i(m, "nested", 0); sh.yield_mask = (int)spec_i(m, "ymask", 0);
      sched_from_spec(m, cfg, tb);
      g_run_seed = spec_u(m, "runseed", 0);
    }
    cfg.keep_log = true;
    g_spec = shape_spec(sh) + "," + sched_spec(cfg); death_info_update();
    RunOut o = run_pool(sh, cfg);
    print_log(stdout);
    emit(o);
    return o.verdict == "ok" ? 0 : 1;
  }
  fprintf(stderr, "bad arguments\n");
  return 2;
}
