// blocks_sim — C09 (and C11 in the tsan variant): the StringDictionaryHASHRPDACBlocks constructor,
// pool and every block builder, unmodified, under simthread.  DESIGN.md §4.1 C09.
#include "common.h"
#include "sim/gen.h"
#include <fcntl.h>
#include "StringDictionaryHASHRPDACBlocks.h"
#include <sstream>
#include <sys/wait.h>

struct BlocksShape {
  bool cold = false;      // cold-start run: big input, no reference builds, first build of the process
  uint32_t set = 0;       // catalogue index
  int maxn = 120;
  unsigned long cut = 64;
  int threads = 2;
  int overhead = 20;
};

static std::string shape_spec(const BlocksShape &s) {
  std::ostringstream o;
  o << "cold=" << (int)s.cold << ",set=" << s.set << ",maxn=" << s.maxn << ",cut=" << s.cut << ",threads=" << s.threads << ",overhead=" << s.overhead;
  return o.str();
}

struct BuildOut {
  bool ok = false;
  std::string image;
  std::string structure; // "" if fine
  uint64_t qdigest = FNV_INIT;
  size_t nparts = 0, n = 0;
  SimResult res;
};

static std::string g_spec; static uint64_t g_run_index, g_run_seed; static bool g_verbose = false; static const char *g_phase = "ref";

static void emit(const std::string &verdict, const std::string &cls, const std::string &detail, const SimResult &r, const BuildOut *ref, const BuildOut *var) {
  size_t tl; const uint32_t *t = sim_trace(&tl);
  printf("{\"run\":%llu,\"seed\":%llu,\"harness\":\"blocks\",\"spec\":%s,\"verdict\":%s,\"class\":%s,\"detail\":%s,\"phase\":\"%s\","
         "\"steps\":%llu,\"switches\":%llu,\"sig\":\"%s\",\"threads\":%d,"
         "\"faults\":{\"spurious\":%llu,\"signal_choice\":%llu,\"preempt\":%llu,\"timeouts\":%llu},"
         "\"probes\":{\"lost_notify_window\":%d,\"notify_no_waiter\":%d,\"contended_locks\":%d},\"clock_ns\":%llu,"
         "\"nparts\":%zu,\"n\":%zu,\"image_len\":%zu,\"image_digest\":\"%s\",\"trace\":\"%s\"}\n",
         (unsigned long long)g_run_index, (unsigned long long)g_run_seed, jstr(g_spec).c_str(), jstr(verdict).c_str(), jstr(cls).c_str(), jstr(detail).c_str(), g_phase,
         (unsigned long long)r.steps, (unsigned long long)r.switches, hex64(r.sig).c_str(), r.threads,
         (unsigned long long)r.spurious_fired, (unsigned long long)r.signal_choices, (unsigned long long)r.preempts, (unsigned long long)r.timeouts,
         r.lost_notify_window, r.bcast_no_waiter, r.contended_locks, (unsigned long long)r.clock_ns_advanced,
         var ? var->nparts : (ref ? ref->nparts : 0), ref ? ref->n : 0, var ? var->image.size() : 0,
         var ? hex64(fnv1a(FNV_INIT, var->image.data(), var->image.size())).c_str() : "",
         (verdict == "ok" && !g_verbose) ? "" : trace_str(t, tl).c_str());
  fflush(stdout);
}

static void on_fatal(const SimResult *r) {
  const char *cls = r->outcome == SO_DEADLOCK ? "deadlock" : r->outcome == SO_STEPCAP ? "stepcap" : "misuse";
  if (g_verbose) print_log(stdout);
  // a fatal outcome in the reference phase is a symmetric failure (precondition), in the varied phase a violation
  emit(!strcmp(g_phase, "ref") ? "precondition_failed" : "violation", !strcmp(g_phase, "ref2") ? (std::string(cls) + "_in_second_reference").c_str() : cls, r->detail, *r, nullptr, nullptr);
}

static BuildOut build_once(const StringSet &ss, const BlocksShape &sh, int threads, SimConfig cfg) {
  BuildOut o;
  size_t len; unsigned char *buf = flatten(ss.v, &len, 1);
  o.n = ss.v.size();
  sim_begin(&cfg);
  StringDictionaryHASHRPDACBlocks *d;
  {
    IteratorDictStringPlain *it = new IteratorDictStringPlain(buf, len);
    d = new StringDictionaryHASHRPDACBlocks(it, len, sh.overhead, sh.cut, threads);
  }
  sim_end(&o.res);
  // structure at return (the harness TU is compiled with -fno-access-control)
  o.nparts = d->parts.size();
  if (d->parts.size() != d->cut_samples.size() || d->parts.size() != d->starting_indexes.size()) o.structure = "size_mismatch";
  for (size_t i = 0; i < d->parts.size() && o.structure.empty(); i++) if (!d->parts[i]) o.structure = "null_slot_" + std::to_string(i);
#if defined(__has_feature)
#if __has_feature(thread_sanitizer)
  // tsan variant (C11): only the parallel build matters; sequential save/queries add nothing a race
  // detector could use and would only trip over pure-input defects of the query path.
  if (o.structure.empty()) { delete d; o.ok = true; return o; }
#endif
#endif
  if (o.structure.empty()) {
    std::ostringstream out(std::ios::out | std::ios::binary);
    d->save(out);
    o.image = out.str();
    // the answers are digested in a forked child: on some inputs the 1-thread build itself cannot answer
    // (pure-input defects of the query path); a child that dies yields the same digest in reference and varied
    // build, so only a schedule-dependent difference shows
    int qp[2]; if (pipe(qp)) { perror("pipe"); _exit(97); }
    fflush(stdout);
    pid_t qpid = fork();
    if (qpid == 0) {
      sim_set_death_info(nullptr, 0, 1);
      close(qp[0]); int nul = open("/dev/null", O_WRONLY); dup2(nul, 2);
      uint64_t h = FNV_INIT;
      size_t n = d->numElements();
      h = fnv1a(h, &n, sizeof n);
      for (size_t i = 1; i <= n; i++) {
        uint l = 0; uchar *s = nullptr;
        try { s = d->extract(i, &l); } catch (const char *e) { h = fnv1a(h, "THROW", 5); continue; }
        h = fnv1a(h, &l, sizeof l);
        if (s) {
          h = fnv1a(h, s, l);
          std::vector<uchar> pat(s, s + l); pat.push_back(0); pat.push_back(0);
          unsigned long id = 0;
          try { id = d->locate(pat.data(), l); } catch (const char *e) { id = (unsigned long)-7; }
          h = fnv1a(h, &id, sizeof id);
          delete[] s;
        } else h = fnv1a(h, "NULL", 4);
      }
      ssize_t w = write(qp[1], &h, sizeof h); (void)w;
      _exit(0);
    }
    close(qp[1]);
    uint64_t h = FNV_INIT; ssize_t got = read(qp[0], &h, sizeof h); close(qp[0]);
    int qst = 0; waitpid(qpid, &qst, 0);
    if (got != (ssize_t)sizeof h || !WIFEXITED(qst) || WEXITSTATUS(qst) != 0) h = fnv1a(FNV_INIT, "QUERY-PASS-DIED", 15);
    o.qdigest = h;
    delete d;
  }
  // a dictionary with null slots cannot be destroyed or saved safely; it is leaked on purpose
  o.ok = true;
  return o;
}

static std::string locate_field(const std::string &img, size_t off) {
  // header: tag u32, maxlength u32, cut u64, n u64, parts u32 = 28 bytes; then samples, then indexes, then parts
  if (off < 28) return "header";
  if (img.size() < 28) return "?";
  uint32_t parts; memcpy(&parts, img.data() + 24, 4);
  size_t p = 28;
  for (uint32_t i = 0; i < parts && p + 4 <= img.size(); i++) { uint32_t l; memcpy(&l, img.data() + p, 4); size_t e = p + 4 + l; if (off < e) return "cut_sample_" + std::to_string(i); p = e; }
  size_t e = p + 8ull * parts;
  if (off < e) return "starting_index_" + std::to_string((off - p) / 8);
  return "part_data+" + std::to_string(off - e);
}

static bool g_cold = false;
static void derive(uint64_t base, uint64_t index, int catalogue, BlocksShape &sh, SimConfig &cfg) {
  g_run_seed = mix64(mix64(base, g_cold ? 0xC01D : 0xC09), index);
  Prng r; r.seed(g_run_seed);
  sh = BlocksShape();
  if (g_cold) {
    sh.cold = true; sh.set = (uint32_t)r.below(64); sh.threads = (int)r.range(2, 4);
    static const unsigned long cuts[] = {9000, 12000, 16000};
    sh.cut = cuts[r.below(3)];
    static const int ovs[] = {20, 25, 50};
    sh.overhead = ovs[r.below(3)];
    cfg = SimConfig();
    return;
  }
  sh.set = (uint32_t)r.below((uint64_t)catalogue);
  sh.maxn = 120;
  // eleven cut sizes: with catalogue sets of at most 120 short strings only the last two regularly give a
  // single block, so about four runs in five have block boundaries, ordering and completion to get wrong
  static const unsigned long cuts[] = {1, 4, 8, 16, 32, 64, 128, 256, 512, 1024, 1ul << 20};
  sh.cut = cuts[r.below(11)];
  bool small = r.chance(1, 2);
  sh.threads = small ? (int)r.range(1, 2) : (int)r.range(1, 6);
  static const int ovs[] = {0, 10, 20, 50, 100};
  sh.overhead = ovs[r.below(5)];
  cfg = SimConfig();
  // calibrated below from the actual number of blocks
}

static size_t count_blocks(const StringSet &ss, unsigned long cut) {
  size_t acc = 0, blocks = 0;
  for (size_t i = 0; i < ss.v.size(); i++) { acc += ss.v[i].size() + 1; if (i + 1 == ss.v.size() || acc > cut) { blocks++; acc = 0; } }
  return blocks;
}

static int run_one(const BlocksShape &sh, SimConfig cfg, bool have_cfg, Prng *r) {
  StringSet ss = sh.cold ? catalogue_big(sh.set) : catalogue_set(sh.set, sh.maxn);
  size_t blocks = count_blocks(ss, sh.cut);
  if (!have_cfg) {
    int explen = 60 + 25 * sh.threads + 45 * (int)blocks;
    draw_sched(*r, cfg, sh.threads + 1, explen, true);
    // cold-start runs look for first-use races between block builders: favour schedules in which
    // several workers have taken a task before any of them starts building
    if (sh.cold && r->chance(1, 2)) cfg.strategy = r->chance(1, 2) ? ST_PFRR : ST_RR;
    if (sh.cold) { static const int pm[] = {0, 1, 1, 2}; cfg.pcguard_permille = pm[r->below(4)]; }
    else if (cfg.pcguard_permille > 20 && ss.total() > 1500) cfg.pcguard_permille = 20; // big builds have 1e5..1e6 guard hits
  }
  cfg.keep_log = true;
  cfg.step_cap = 400000; cfg.fair_after = 200000;
  g_spec = shape_spec(sh) + "," + sched_spec(cfg) + ",blocks=" + std::to_string(blocks); death_info_update();
  // references: one worker thread, run to completion, no faults, under the two extremal schedules
  // (producer-first and worker-first).  A failure of the first is symmetric (precondition_failed);
  // the second must agree with the first -- a 1-thread build must not depend on the schedule either.
  // Which extremal schedule goes first is seeded, so neither is privileged.
  if (sh.cold) {
    // lazily initialised shared state races only the first time it is touched in a process: the
    // varied build is the first thing this process does
    g_phase = "var";
    printf("{\"begin\":%llu,\"phase\":\"var\"}\n", (unsigned long long)g_run_index); fflush(stdout);
    BuildOut var = build_once(ss, sh, sh.threads, cfg);
    std::string verdict = "ok", cls, detail;
    if (!var.structure.empty()) { verdict = "violation"; cls = "incomplete_at_return"; detail = var.structure; }
    emit(verdict, cls, detail, var.res, nullptr, &var);
    return verdict == "ok" ? 0 : 1;
  }
  bool low_first = (mix64(g_run_seed, 0x2ef) & 1) != 0;
  g_phase = "ref";
  printf("{\"begin\":%llu,\"phase\":\"ref\"}\n", (unsigned long long)g_run_index); fflush(stdout);
  SimConfig rc; rc.strategy = low_first ? ST_LOWFIRST : ST_HIGHFIRST; rc.keep_log = false; rc.step_cap = 400000; rc.fair_after = 400000;
  BuildOut ref = build_once(ss, sh, 1, rc);
  if (!ref.structure.empty()) { emit("precondition_failed", "ref_structure", ref.structure, ref.res, &ref, nullptr); return 0; }
  g_phase = "ref2";
  printf("{\"begin\":%llu,\"phase\":\"ref2\"}\n", (unsigned long long)g_run_index); fflush(stdout);
  rc.strategy = low_first ? ST_HIGHFIRST : ST_LOWFIRST;
  BuildOut ref2 = build_once(ss, sh, 1, rc);
#if defined(__has_feature)
#if __has_feature(thread_sanitizer)
  ref2.image = ref.image; ref2.qdigest = ref.qdigest;
#endif
#endif
  if (!ref2.structure.empty() || ref2.image != ref.image || ref2.qdigest != ref.qdigest) {
    std::string d = !ref2.structure.empty() ? ref2.structure : (ref2.image != ref.image ? "images of two 1-thread builds differ" : "answers of two 1-thread builds differ");
    emit("violation", "one_thread_schedules_disagree", d, ref2.res, &ref, &ref2);
    return 1;
  }
  g_phase = "var";
  printf("{\"begin\":%llu,\"phase\":\"var\"}\n", (unsigned long long)g_run_index); fflush(stdout);
  BuildOut var = build_once(ss, sh, sh.threads, cfg);
  if (g_verbose) print_log(stdout);
  std::string verdict = "ok", cls, detail;
#if defined(__has_feature)
#if __has_feature(thread_sanitizer)
  // tsan variant (C11): heap contents are not controlled in this build (no allocator fill), so the
  // image/answer comparison -- C09's oracle, decided in the asan variant -- is not evaluated here.
  var.image = ref.image; var.qdigest = ref.qdigest;
#endif
#endif
  if (!var.structure.empty()) { verdict = "violation"; cls = "incomplete_at_return"; detail = var.structure; }
  else if (var.image != ref.image) {
    verdict = "violation"; cls = "image_differs";
    size_t off = 0; while (off < var.image.size() && off < ref.image.size() && var.image[off] == ref.image[off]) off++;
    detail = "first differing offset " + std::to_string(off) + " (" + locate_field(ref.image, off) + "), lengths " + std::to_string(ref.image.size()) + " vs " + std::to_string(var.image.size());
  } else if (var.qdigest != ref.qdigest) { verdict = "violation"; cls = "answers_differ"; detail = "query digest differs from the 1-thread reference"; }
  emit(verdict, cls, detail, var.res, &ref, &var);
  return verdict == "ok" ? 0 : 1;
}

int main(int argc, char **argv) {
  disable_aslr(argv);
  setvbuf(stdout, nullptr, _IOLBF, 0);
  sim_set_fatal_cb(on_fatal);
  install_death_cb(&g_spec);
  // the library prints notices on stdout for unsupported calls; none are made here
  if (argc < 2) { fprintf(stderr, "usage: blocks_sim run <base> <first> <count> <catalogue> | replay <spec> | one <base> <index> <catalogue>\n"); return 2; }
  std::string mode = argv[1];
  if (mode == "run" && argc >= 6) {
    uint64_t base = strtoull(argv[2], 0, 0), first = strtoull(argv[3], 0, 0), count = strtoull(argv[4], 0, 0);
    int cat = atoi(argv[5]);
    g_cold = argc > 6 && !strcmp(argv[6], "cold");
    for (uint64_t i = first; i < first + count; i++) {
      BlocksShape sh; SimConfig cfg; g_run_index = i; g_death_run = i;
      derive(base, i, cat, sh, cfg);
      Prng r; r.seed(mix64(g_run_seed, 0x5c4ed));
      run_one(sh, cfg, false, &r);
    }
    return 0;
  }
  if ((mode == "one" && argc >= 5) || (mode == "replay" && argc >= 3)) {
    BlocksShape sh; SimConfig cfg; std::vector<uint32_t> tb;
    g_verbose = true;
    if (mode == "one") {
      g_cold = argc > 5 && !strcmp(argv[5], "cold");
      g_run_index = strtoull(argv[3], 0, 0); g_death_run = g_run_index;
      derive(strtoull(argv[2], 0, 0), g_run_index, atoi(argv[4]), sh, cfg);
      Prng r; r.seed(mix64(g_run_seed, 0x5c4ed));
      return run_one(sh, cfg, false, &r);
    }
    Spec m = parse_spec(argv[2]);
    sh.cold = spec_i(m, "cold", 0) != 0;
    sh.set = (uint32_t)spec_u(m, "set", 0); sh.maxn = (int)spec_i(m, "maxn", 120); sh.cut = (unsigned long)spec_u(m, "cut", 64);
    sh.threads = (int)spec_i(m, "threads", 2); sh.overhead = (int)spec_i(m, "overhead", 20);
    sched_from_spec(m, cfg, tb);
    g_run_seed = spec_u(m, "runseed", 0);
    return run_one(sh, cfg, true, nullptr);
  }
  fprintf(stderr, "bad arguments\n");
  return 2;
}
