// battery — client calls against a dictionary, digests of every observable, pattern-buffer guard,
// script generation (simclients, seam S3) and the full query battery.  DESIGN §2.3, §4.1.
#pragma once
#include "dictlayer.h"
#include <sstream>

enum CallOp { C_LOCATE = 0, C_EXTRACT, C_LOCPREFIX, C_EXTPREFIX, C_LOCSUBSTR, C_EXTSUBSTR, C_TABLE, C_NEXT, C_CLOSE, C_LOCRANK, C_EXTRANK, C_NUM, C_MAXLEN, C_OPS };
static const char *callop_name(int o) {
  static const char *n[] = {"locate", "extract", "locatePrefix", "extractPrefix", "locateSubstr", "extractSubstr", "extractTable", "next", "close", "locateRank", "extractRank", "numElements", "maxLength"};
  return n[o];
}
static int callop_to_op(int c) {
  switch (c) {
  case C_LOCATE: return O_LOCATE; case C_EXTRACT: return O_EXTRACT; case C_LOCPREFIX: return O_LOCPREFIX; case C_EXTPREFIX: return O_EXTPREFIX;
  case C_LOCSUBSTR: return O_LOCSUBSTR; case C_EXTSUBSTR: return O_EXTSUBSTR; case C_TABLE: return O_TABLE; case C_LOCRANK: return O_LOCRANK; case C_EXTRANK: return O_EXTRANK;
  }
  return -1;
}

struct Call {
  int op = C_NUM;
  std::string arg;   // pattern
  size_t id = 0;     // id / rank
  int handle = 0;    // iterator slot 0..3
  int count = 1;     // C_NEXT: how many elements to draw at most
  bool unsupported = false; // the kind does not provide this operation (C16)
};
static std::string hexs(const std::string &s) { static const char *h = "0123456789abcdef"; std::string o; for (unsigned char c : s) { o += h[c >> 4]; o += h[c & 15]; } return o; }
static std::string unhex(const std::string &s) { std::string o; for (size_t i = 0; i + 1 < s.size(); i += 2) o += (char)strtol(s.substr(i, 2).c_str(), nullptr, 16); return o; }
static std::string call_str(const Call &c) {
  std::ostringstream o;
  o << callop_name(c.op);
  switch (c.op) {
  case C_LOCATE: case C_LOCPREFIX: case C_EXTPREFIX: case C_LOCSUBSTR: case C_EXTSUBSTR: o << "(x" << hexs(c.arg) << ")"; if (c.op != C_LOCATE) o << "->h" << c.handle; break;
  case C_EXTRACT: case C_LOCRANK: case C_EXTRANK: o << "(" << c.id << ")"; break;
  case C_TABLE: o << "()->h" << c.handle; break;
  case C_NEXT: o << "(h" << c.handle << "," << c.count << ")"; break;
  case C_CLOSE: o << "(h" << c.handle << ")"; break;
  default: o << "()";
  }
  if (c.unsupported) o << "!";
  return o.str();
}

struct ClientState {
  IteratorDictID *idit[4] = {nullptr, nullptr, nullptr, nullptr};
  IteratorDictString *strit[4] = {nullptr, nullptr, nullptr, nullptr};
  int open_count() const { int n = 0; for (int i = 0; i < 4; i++) n += (idit[i] != nullptr) + (strit[i] != nullptr); return n; }
  void close(int h) { delete idit[h]; idit[h] = nullptr; delete strit[h]; strit[h] = nullptr; }
  void close_all() { for (int h = 0; h < 4; h++) close(h); }
};

struct CallResult {
  uint64_t digest = FNV_INIT;
  bool pattern_changed = false;   // the caller's pattern buffer differs after the call
  bool protocol_bad = false;      // reported length != strlen / missing terminator
  bool threw = false;
  bool nonnull_from_unsupported = false; // C16: fabricated answer
};

static inline uint64_t dig_str(uint64_t h, const uchar *s, uint len, bool *bad) {
  if (!s) return fnv1a(h, "NULL", 4);
  h = fnv1a(h, &len, sizeof len);
  h = fnv1a(h, s, len);
  // the terminator is part of the answer
  if (s[len] != 0 || strlen((const char *)s) != len) { if (bad) *bad = true; h = fnv1a(h, "BADTERM", 7); }
  return h;
}

// Executes one client call.  Pattern buffers are writable, len+2 bytes, heap allocated (so that
// ASan sees overruns), NUL terminated with a guard byte behind the terminator.
static CallResult exec_call(StringDictionary *d, ClientState &cs, const Call &c) {
  CallResult r;
  uint64_t h = fnv1a(FNV_INIT, &c.op, sizeof c.op);
  uchar *pat = nullptr; uint plen = (uint)c.arg.size();
  bool haspat = (c.op == C_LOCATE || c.op == C_LOCPREFIX || c.op == C_EXTPREFIX || c.op == C_LOCSUBSTR || c.op == C_EXTSUBSTR);
  if (haspat) { pat = new uchar[plen + 2]; memcpy(pat, c.arg.data(), plen); pat[plen] = 0; pat[plen + 1] = 0x5A; }
  try {
    switch (c.op) {
    case C_LOCATE: { unsigned long id = d->locate(pat, plen); h = fnv1a(h, &id, sizeof id); break; }
    case C_EXTRACT: { uint l = 0; uchar *s = d->extract(c.id, &l); h = dig_str(h, s, l, &r.protocol_bad); if (!s) h = fnv1a(h, &l, sizeof l); delete[] s; break; }
    case C_LOCPREFIX: case C_LOCSUBSTR: {
      cs.close(c.handle);
      IteratorDictID *it = c.op == C_LOCPREFIX ? d->locatePrefix(pat, plen) : d->locateSubstr(pat, plen);
      cs.idit[c.handle] = it;
      int isnull = it == nullptr; h = fnv1a(h, &isnull, sizeof isnull);
      if (it) { int hn = it->hasNext(); h = fnv1a(h, &hn, sizeof hn); if (c.unsupported) r.nonnull_from_unsupported = true; }
      break;
    }
    case C_EXTPREFIX: case C_EXTSUBSTR: case C_TABLE: {
      cs.close(c.handle);
      IteratorDictString *it = c.op == C_EXTPREFIX ? d->extractPrefix(pat, plen) : c.op == C_EXTSUBSTR ? d->extractSubstr(pat, plen) : d->extractTable();
      cs.strit[c.handle] = it;
      int isnull = it == nullptr; h = fnv1a(h, &isnull, sizeof isnull);
      if (it) { int hn = it->hasNext(); h = fnv1a(h, &hn, sizeof hn); if (c.unsupported) r.nonnull_from_unsupported = true; }
      break;
    }
    case C_NEXT: {
      if (cs.idit[c.handle]) {
        IteratorDictID *it = cs.idit[c.handle];
        for (int k = 0; k < c.count && it->hasNext(); k++) { size_t id = it->next(); h = fnv1a(h, &id, sizeof id); }
        int hn = it->hasNext(); h = fnv1a(h, &hn, sizeof hn);
      } else if (cs.strit[c.handle]) {
        IteratorDictString *it = cs.strit[c.handle];
        for (int k = 0; k < c.count && it->hasNext(); k++) { uint l = 0; uchar *s = it->next(&l); h = dig_str(h, s, l, &r.protocol_bad); delete[] s; }
        int hn = it->hasNext(); h = fnv1a(h, &hn, sizeof hn);
      } else h = fnv1a(h, "NOHANDLE", 8);
      break;
    }
    case C_CLOSE: cs.close(c.handle); break;
    case C_LOCRANK: { uint id = d->locateRank((uint)c.id); h = fnv1a(h, &id, sizeof id); if (c.unsupported && id != 0) r.nonnull_from_unsupported = true; break; }
    case C_EXTRANK: { uint l = 0; uchar *s = d->extractRank((uint)c.id, &l); h = dig_str(h, s, l, &r.protocol_bad); if (s && c.unsupported) r.nonnull_from_unsupported = true; delete[] s; break; }
    case C_NUM: { size_t n = d->numElements(); h = fnv1a(h, &n, sizeof n); break; }
    case C_MAXLEN: { uint m = d->maxLength(); h = fnv1a(h, &m, sizeof m); break; }
    }
  } catch (const char *e) { r.threw = true; h = fnv1a(h, "THROW", 5); }
  catch (...) { r.threw = true; h = fnv1a(h, "THROW?", 6); }
  if (haspat) {
    if (memcmp(pat, c.arg.data(), plen) != 0 || pat[plen] != 0 || pat[plen + 1] != 0x5A) r.pattern_changed = true;
    delete[] pat;
  }
  r.digest = h;
  return r;
}

// ---- query material derived from the string set ---------------------------------------------------
struct QueryPool {
  std::vector<std::string> members, nonmembers, prefixes, substrs;
  std::vector<size_t> ids, ranks;
};
static QueryPool make_pool(const std::vector<std::string> &v, Prng &r, size_t cap) {
  QueryPool q;
  size_t n = v.size();
  auto has = [&](const std::string &s) { return std::binary_search(v.begin(), v.end(), s, ubyte_less); };
  // members: first, last, evenly spread
  std::vector<size_t> idx;
  if (n <= cap) for (size_t i = 0; i < n; i++) idx.push_back(i);
  else { for (size_t k = 0; k < cap; k++) idx.push_back(k * (n - 1) / (cap - 1)); }
  for (size_t i : idx) { q.members.push_back(v[i]); q.ids.push_back(i + 1); q.ranks.push_back(i + 1); }
  q.ids.push_back(0); q.ids.push_back(n + 1); q.ids.push_back(n + 2); q.ids.push_back((size_t)1 << 33); q.ids.push_back((size_t)-1);
  q.ranks.push_back(0); q.ranks.push_back(n + 1);
  auto add_non = [&](std::string s) { if (!s.empty() && !has(s) && s.size() < 400) q.nonmembers.push_back(s); };
  for (int k = 0; k < 6; k++) {
    const std::string &m = v[r.below(n)];
    add_non(m + (char)('a' + (int)r.below(4)));                    // extension
    if (m.size() > 1) add_non(m.substr(0, m.size() - 1));          // proper prefix
    std::string t = m; t[r.below(t.size())] = (char)(0x02 + r.below(253)); add_non(t); // one byte changed
  }
  add_non(std::string(1, (char)0x02));                              // before everything
  add_non(std::string(3, (char)0xFE));                              // after everything
  add_non(v[0] + std::string(1, (char)0xFD));                       // byte that (mostly) occurs nowhere
  { std::string t; int L = (int)r.range(1, 12); for (int i = 0; i < L; i++) t += (char)(0x02 + r.below(253)); add_non(t); }
  // prefixes: of members (1 byte, half, whole), extended, absent
  for (int k = 0; k < 5; k++) {
    const std::string &m = v[r.below(n)];
    q.prefixes.push_back(m.substr(0, 1));
    q.prefixes.push_back(m.substr(0, (m.size() + 1) / 2));
    q.prefixes.push_back(m);
    q.prefixes.push_back(m.substr(0, (m.size() + 1) / 2) + (char)(0x02 + r.below(253)));
  }
  q.prefixes.push_back(std::string(2, (char)0xFE));
  q.prefixes.push_back(std::string(1, (char)0x02));
  // substrings: start, middle, end, whole, single byte, absent
  for (int k = 0; k < 5; k++) {
    const std::string &m = v[r.below(n)];
    size_t a = r.below(m.size()), l = 1 + r.below(m.size() - a);
    q.substrs.push_back(m.substr(a, l));
    q.substrs.push_back(m.substr(m.size() - std::min<size_t>(m.size(), 3)));
    q.substrs.push_back(m.substr(0, std::min<size_t>(m.size(), 2)));
  }
  q.substrs.push_back(std::string(2, (char)0xFE));
  return q;
}

// One client's script: a seeded mixture of calls.  `allow_unsupported`: also issue operations the
// kind does not provide (C16); they are marked so.
static std::vector<Call> gen_script(int kind, const Params &p, const QueryPool &q, Prng &r, int len, bool allow_unsupported) {
  std::vector<Call> s;
  bool open_[4] = {false, false, false, false};
  for (int i = 0; i < len; i++) {
    Call c;
    uint64_t x = r.below(100);
    if (x < 22) { c.op = C_LOCATE; c.arg = r.chance(2, 3) ? q.members[r.below(q.members.size())] : (q.nonmembers.empty() ? q.members[0] : q.nonmembers[r.below(q.nonmembers.size())]); }
    else if (x < 40) { c.op = C_EXTRACT; c.id = q.ids[r.below(q.ids.size())]; }
    else if (x < 62) {
      // draw from an open iterator, else open one
      int h = (int)r.below(4);
      if (open_[h]) { c.op = C_NEXT; c.handle = h; c.count = (int)r.range(1, 5); }
      else {
        static const int opens[] = {C_LOCPREFIX, C_EXTPREFIX, C_LOCSUBSTR, C_EXTSUBSTR, C_TABLE};
        int cand[5], nc = 0;
        for (int k = 0; k < 5; k++) if (allow_unsupported || supported(kind, callop_to_op(opens[k]), p)) cand[nc++] = opens[k];
        c.op = cand[r.below((uint64_t)nc)]; c.handle = h;
        c.unsupported = !supported(kind, callop_to_op(c.op), p);
        if (c.op == C_LOCPREFIX || c.op == C_EXTPREFIX) c.arg = q.prefixes[r.below(q.prefixes.size())];
        if (c.op == C_LOCSUBSTR || c.op == C_EXTSUBSTR) c.arg = q.substrs[r.below(q.substrs.size())];
        // an operation the kind does not provide has to say so for every argument, the empty pattern included
        // (supported searches are never given one: several of them do not survive it, a pure-input matter)
        if (c.unsupported && c.op != C_TABLE && r.chance(1, 5)) c.arg.clear();
        open_[h] = true;
      }
    }
    else if (x < 72) { int h = (int)r.below(4); c.op = open_[h] ? C_NEXT : C_NUM; c.handle = h; c.count = (int)r.range(1, 40); }
    else if (x < 78) { int h = (int)r.below(4); c.op = C_CLOSE; c.handle = h; open_[h] = false; }
    else if (x < 88) {
      c.op = r.chance(1, 2) ? C_LOCRANK : C_EXTRANK; c.id = q.ranks[r.below(q.ranks.size())];
      if (!supported(kind, callop_to_op(c.op), p)) { if (allow_unsupported) c.unsupported = true; else { c.op = C_EXTRACT; c.id = q.ids[r.below(q.ids.size())]; } }
    }
    else if (x < 94) c.op = C_NUM;
    else c.op = C_MAXLEN;
    s.push_back(c);
  }
  return s;
}

// The full battery: one long deterministic script covering whatever the kind supports.
static std::vector<Call> battery_script(int kind, const Params &p, const QueryPool &q) {
  std::vector<Call> s;
  auto mk = [](int op) { Call c; c.op = op; return c; };
  s.push_back(mk(C_NUM)); s.push_back(mk(C_MAXLEN));
  for (auto &m : q.members) { Call c = mk(C_LOCATE); c.arg = m; s.push_back(c); }
  for (auto &m : q.nonmembers) { Call c = mk(C_LOCATE); c.arg = m; s.push_back(c); }
  for (size_t id : q.ids) { Call c = mk(C_EXTRACT); c.id = id; s.push_back(c); }
  auto drain = [&](int openop, const std::string &arg) {
    Call c = mk(openop); c.arg = arg; c.handle = 0; s.push_back(c);
    Call n = mk(C_NEXT); n.handle = 0; n.count = 1 << 20; s.push_back(n);
    Call cl = mk(C_CLOSE); cl.handle = 0; s.push_back(cl);
  };
  if (supported(kind, O_LOCPREFIX, p)) for (size_t i = 0; i < q.prefixes.size() && i < 10; i++) { drain(C_LOCPREFIX, q.prefixes[i]); drain(C_EXTPREFIX, q.prefixes[i]); }
  if (supported(kind, O_LOCSUBSTR, p)) for (size_t i = 0; i < q.substrs.size() && i < 8; i++) { drain(C_LOCSUBSTR, q.substrs[i]); drain(C_EXTSUBSTR, q.substrs[i]); }
  if (supported(kind, O_LOCRANK, p)) for (size_t k : q.ranks) { Call c = mk(C_LOCRANK); c.id = k; s.push_back(c); Call e = mk(C_EXTRANK); e.id = k; s.push_back(e); }
  if (supported(kind, O_TABLE, p)) drain(C_TABLE, "");
  return s;
}

struct ScriptRun {
  std::vector<uint64_t> digests;
  int pattern_changed_at = -1, protocol_bad_at = -1, fabricated_at = -1, threw = 0;
  uint64_t all() const { uint64_t h = FNV_INIT; for (uint64_t d : digests) h = fnv1a(h, &d, sizeof d); return h; }
};
// `skip` (optional): calls whose reference execution does not survive (symmetric failures) are not issued
static bool call_stateless(const Call &c) { return c.op == C_LOCATE || c.op == C_EXTRACT || c.op == C_LOCRANK || c.op == C_EXTRANK || c.op == C_NUM || c.op == C_MAXLEN; }
// `resume_from`: calls before this index were already answered by an earlier (dead) child; only the
// stateful ones (iterator open/next/close) are re-executed, silently, to rebuild iterator state
// isolated children re-arm their CPU-time watchdog here: the budget is per call, so that a long script on a loaded
// machine is never mistaken for a hang (a hang is one call that does not return)
static void (*g_per_call_hook)() = nullptr;
static ScriptRun run_script(StringDictionary *d, const std::vector<Call> &s, const std::vector<char> *skip = nullptr, int report_fd = -1, size_t resume_from = 0) {
  ScriptRun o; ClientState cs;
  for (size_t i = 0; i < s.size(); i++) {
    if (skip && (*skip)[i]) { o.digests.push_back(0); continue; }
    if (g_per_call_hook) g_per_call_hook();
    if (i < resume_from) { o.digests.push_back(0); if (!call_stateless(s[i])) exec_call(d, cs, s[i]); continue; }
    if (report_fd >= 0) { uint32_t m[2] = {0xB0B0B0B0u, (uint32_t)i}; ssize_t w = write(report_fd, m, sizeof m); (void)w; }
    CallResult r = exec_call(d, cs, s[i]);
    if (report_fd >= 0) { struct { uint32_t magic, idx; uint64_t dig; uint32_t flags; uint32_t pad; } m = {0xD1D1D1D1u, (uint32_t)i, r.digest, (uint32_t)(r.pattern_changed | (r.protocol_bad << 1) | (r.nonnull_from_unsupported << 2) | (r.threw << 3)), 0}; ssize_t w = write(report_fd, &m, sizeof m); (void)w; }
    o.digests.push_back(r.digest);
    if (r.pattern_changed && o.pattern_changed_at < 0) o.pattern_changed_at = (int)i;
    if (r.protocol_bad && o.protocol_bad_at < 0) o.protocol_bad_at = (int)i;
    if (r.nonnull_from_unsupported && o.fabricated_at < 0) o.fabricated_at = (int)i;
    o.threw += r.threw;
  }
  cs.close_all();
  return o;
}
