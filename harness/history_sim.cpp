// history_sim — C14, C08, C06, C16 (and C07's monitors): API-call histories, simulated restarts,
// simdisk streams and fault injection over all 13 dictionary kinds.  DESIGN.md §2.3, §2.4, §4.1.
//
// One run = one seeded history.  Every step announces its phase first: a death in a "ref" step is a
// symmetric failure (precondition_failed), a death in a "var" step is an asymmetric one (violation of
// the property under test).  Observables are digested and printed so that the supervisor can compare
// the same history across heap universes (seam S2).
#include "common.h"
#include "battery.h"
#include "sim/simdisk.h"
#include <fcntl.h>
#include <poll.h>
#include <sys/wait.h>
#include <sys/time.h>

static FILE *g_out;
static bool g_in_child = false;
static uint64_t g_run_index, g_run_seed;
static std::string g_spec, g_mode;
static bool g_verbose = false;
static int g_catalogue = 48;
static const int MAXN = 200;

struct Obs {
  std::vector<std::pair<std::string, uint64_t>> items;
  void add(const std::string &label, uint64_t d) { items.push_back({label, d}); }
  uint64_t group(const char *prefix) const { uint64_t h = FNV_INIT; size_t n = strlen(prefix); for (auto &it : items) if (it.first.compare(0, n, prefix) == 0) h = fnv1a(h, &it.second, sizeof it.second); return h; }
  size_t count(const char *prefix) const { size_t c = 0, n = strlen(prefix); for (auto &it : items) if (it.first.compare(0, n, prefix) == 0) c++; return c; }
};
static Obs g_obs;
static std::map<std::string, long> g_stats; // fault / probe counters of the run in flight

// watchdog on CPU time (robust against a loaded machine): a step that burns this much is a hang
static void arm_watchdog(double seconds) {
  struct itimerval it; memset(&it, 0, sizeof it);
  it.it_value.tv_sec = (long)seconds; it.it_value.tv_usec = (long)((seconds - (long)seconds) * 1e6);
  setitimer(ITIMER_VIRTUAL, &it, nullptr);
}
static std::string g_refstate = "built"; // state of the object the current varied step is compared with
static void begin(const char *phase, const std::string &step) {
  arm_watchdog(15.0);
  if (!g_in_child) death_info_update();
  fprintf(g_out, "{\"begin\":%llu,\"phase\":\"%s\",\"step\":%s,\"refstate\":\"%s\"}\n", (unsigned long long)g_run_index, phase, jstr(step).c_str(), g_refstate.c_str());
  fflush(g_out);
  static const bool layout_probe = getenv("VERIF_LAYOUT") != nullptr;
  if (layout_probe && !g_in_child) { void *a = malloc(24); fprintf(stderr, "LAYOUT-STEP %llu %s %s %p\n", (unsigned long long)g_run_index, phase, step.c_str(), a); free(a); }
}

// debugging aid (VERIF_LAYOUT=2): every allocation of the worker process goes to fd 9 as "run size ptr"
static int g_malloc_log = 0; static uint64_t g_mhash = 0, g_malloc_log_from = 0;
extern "C" void __sanitizer_malloc_hook(const volatile void *p, size_t sz) {
  if (!g_malloc_log || g_in_child) return;
  g_mhash = (g_mhash ^ sz ^ ((uint64_t)(uintptr_t)p << 7)) * 0x100000001b3ULL;
  if (g_run_index < g_malloc_log_from) return;
  char b[80]; int n = snprintf(b, sizeof b, "%llu %zu %p\n", (unsigned long long)g_run_index, sz, (void *)p);
  ssize_t w = write(9, b, (size_t)n); (void)w;
}
static std::string g_kinds; // kinds touched by the run, for evidence histograms
static std::string g_shape; // history shape signature

struct SymFailure { size_t call; std::string what; std::string report; };
// a child's stderr from the first line of the sanitizer report on (library chatter before it is dropped)
static std::string report_of(const std::string &err) {
  static const char *marks[] = {"ERROR: AddressSanitizer", "runtime error: ", "Assertion `", "terminate called"};
  size_t at = std::string::npos;
  for (const char *m : marks) { size_t p = err.find(m); if (p < at) at = p; }
  size_t ls = 0;
  if (at != std::string::npos) { ls = err.rfind('\n', at); ls = (ls == std::string::npos) ? 0 : ls + 1; }
  // "==12345==" carries the child's pid: normalised, or the length of this string (and with it the worker's heap
  // layout) would depend on how many processes the machine has started so far
  std::string out; out.reserve(3072);
  for (size_t i = ls; i < err.size() && out.size() < 3000; i++) {
    if (err[i] == '=' && i + 1 < err.size() && err[i + 1] == '=' && i + 2 < err.size() && isdigit((unsigned char)err[i + 2])) {
      size_t j = i + 2; while (j < err.size() && isdigit((unsigned char)err[j])) j++;
      if (j + 1 < err.size() && err[j] == '=' && err[j + 1] == '=') { out += "==0=="; i = j + 1; continue; }
    }
    out += err[i];
  }
  return out;
}
static std::vector<SymFailure> g_sym;   // symmetric failures (isolated reference calls that did not survive)
static uint64_t g_mask_hash = FNV_INIT; // which reference calls were excluded: universes are only comparable when equal

static void emit(const std::string &verdict, const std::string &cls, const std::string &detail) {
  std::string st = "{";
  bool first = true;
  for (auto &kv : g_stats) { if (!first) st += ","; first = false; st += jstr(kv.first) + ":" + std::to_string(kv.second); }
  st += "}";
  std::string imgs = "{";
  { bool f1 = true; for (auto &it : g_obs.items) if (it.first.compare(0, 4, "img:") == 0) { if (!f1) imgs += ","; f1 = false; imgs += jstr(it.first.substr(4)) + ":\"" + hex64(it.second) + "\""; } }
  imgs += "}";
  std::string sym = "[";
  for (size_t i = 0; i < g_sym.size() && i < 12; i++) { if (i) sym += ","; sym += "{\"what\":" + jstr(g_sym[i].what) + ",\"report\":" + jstr(g_sym[i].report) + "}"; }
  sym += "]";
  fprintf(g_out, "{\"run\":%llu,\"seed\":%llu,\"harness\":\"history\",\"mode\":%s,\"spec\":%s,\"verdict\":%s,\"class\":%s,\"detail\":%s,"
                 "\"kinds\":%s,\"shape\":%s,\"obs_img\":\"%s\",\"obs_ans\":\"%s\",\"obs_bans\":\"%s\",\"obs_lans\":\"%s\",\"n_img\":%zu,\"n_ans\":%zu,\"stats\":%s,\"n_sym\":%zu,\"mask\":\"%s\",\"imgs\":%s,\"sym\":%s}\n",
          (unsigned long long)g_run_index, (unsigned long long)g_run_seed, jstr(g_mode).c_str(), jstr(g_spec).c_str(), jstr(verdict).c_str(), jstr(cls).c_str(), jstr(detail).c_str(),
          jstr(g_kinds).c_str(), jstr(g_shape).c_str(), hex64(g_obs.group("img:")).c_str(), hex64(g_obs.group("ans:")).c_str(), hex64(g_obs.group("bans:")).c_str(),
          hex64(g_obs.group("lans:")).c_str(), g_obs.count("img:"), g_obs.count("ans:") + g_obs.count("bans:") + g_obs.count("lans:"), st.c_str(), g_sym.size(), hex64(g_mask_hash).c_str(), imgs.c_str(), sym.c_str());
  if (g_verbose) for (auto &it : g_obs.items) fprintf(g_out, "  obs %s %s\n", it.first.c_str(), hex64(it.second).c_str());
  fflush(g_out);
}

// ---- reference executions in isolation (fork) ------------------------------------------------------
// The tree under test has pure-input defects on many query paths.  A reference call that does not
// survive is a *symmetric* failure: it says nothing about the property under test, and it must not
// take the whole run with it.  So the reference pass of a script runs in a forked child (a copy-on-
// write clone of this very process and object); a call that kills the child is recorded (C07
// material), excluded, and the script is re-run without it.  The parent then issues only calls whose
// reference execution survived -- a death of the parent on one of those is asymmetric.
struct Probe { ScriptRun run; std::vector<char> skip; };


static Probe probe_script(StringDictionary *d, const std::vector<Call> &script, const std::string &ctx) {
  Probe pr; pr.skip.assign(script.size(), 0);
  ScriptRun acc; acc.digests.assign(script.size(), 0);
  size_t resume = 0; int crashes_by_op[C_OPS] = {0};
  for (int attempt = 0; attempt < 40; attempt++) {
    int dp[2], ep[2];
    if (pipe(dp) || pipe(ep)) { perror("pipe"); _exit(97); }
    fflush(g_out);
    pid_t pid = fork();
    if (pid == 0) {
      g_in_child = true; g_death_spec = nullptr; death_info_update();
      close(dp[0]); close(ep[0]); dup2(ep[1], 2);
      arm_watchdog(1.5); g_per_call_hook = [] { arm_watchdog(1.5); };
      ScriptRun r = run_script(d, script, &pr.skip, dp[1], resume);
      (void)r;
      uint32_t fin[2] = {0xF1F1F1F1u, 0}; ssize_t w = write(dp[1], fin, sizeof fin); (void)w;
      _exit(0);
    }
    close(dp[1]); close(ep[1]);
    // reserved up front: how the pipes chunk the child's output depends on timing, the parent's heap layout must not
    std::string data, err; char buf[4096]; data.reserve(1 << 16); err.reserve(24576);
    struct pollfd pf[2] = {{dp[0], POLLIN, 0}, {ep[0], POLLIN, 0}};
    int open_ = 2;
    while (open_ > 0) {
      if (poll(pf, 2, 30000) <= 0) break;
      for (int k = 0; k < 2; k++) if (pf[k].fd >= 0 && (pf[k].revents & (POLLIN | POLLHUP | POLLERR))) {
        ssize_t n = read(pf[k].fd, buf, sizeof buf);
        if (n <= 0) { close(pf[k].fd); pf[k].fd = -1; open_--; }
        else { if (k == 0) data.append(buf, (size_t)n); else if (err.size() < 20000) err.append(buf, (size_t)n); }
      }
    }
    for (int k = 0; k < 2; k++) if (pf[k].fd >= 0) close(pf[k].fd);
    int status = 0; waitpid(pid, &status, 0);
    // parse the child's report
    ScriptRun &run = acc;
    size_t off = 0; long inflight = -1; bool finished = false;
    while (off + 8 <= data.size()) {
      uint32_t magic, idx; memcpy(&magic, &data[off], 4); memcpy(&idx, &data[off + 4], 4);
      if (magic == 0xB0B0B0B0u) { inflight = idx; off += 8; }
      else if (magic == 0xD1D1D1D1u && off + 24 <= data.size()) {
        uint64_t dig; uint32_t fl; memcpy(&dig, &data[off + 8], 8); memcpy(&fl, &data[off + 16], 4);
        if (idx < script.size()) {
          run.digests[idx] = dig;
          if ((fl & 1) && run.pattern_changed_at < 0) run.pattern_changed_at = (int)idx;
          if ((fl & 2) && run.protocol_bad_at < 0) run.protocol_bad_at = (int)idx;
          if ((fl & 4) && run.fabricated_at < 0) run.fabricated_at = (int)idx;
          if (fl & 8) run.threw++;
        }
        inflight = -1; off += 24;
      }
      else if (magic == 0xF1F1F1F1u) { finished = true; off += 8; }
      else break;
    }
    if (finished) {
      pr.run = run; g_stats["probe_forks"] += attempt + 1;
      // stability pass: the same script once more in a child whose heap has been disturbed first.  An answer
      // that changes is not a function of (dictionary, query) even in isolation (a wild read): it cannot serve
      // as a reference, is excluded, and is reported to C07.
      if (!getenv("VERIF_NO_STABILITY")) {
        int sp[2]; if (pipe(sp)) { perror("pipe"); _exit(97); }
        fflush(g_out);
        pid_t p2 = fork();
        if (p2 == 0) {
          g_in_child = true; g_death_spec = nullptr; death_info_update();
          close(sp[0]); int nul = open("/dev/null", O_WRONLY); dup2(nul, 2);
          arm_watchdog(6.0);
          std::vector<char *> junk;
          for (int i = 0; i < 96; i++) { size_t sz = 16 + (size_t)((i * 2654435761u) % 4000); char *j = new char[sz]; memset(j, 0x5c, sz); junk.push_back(j); }
          for (size_t i = 0; i < junk.size(); i += 2) delete[] junk[i];
          g_per_call_hook = [] { arm_watchdog(1.5); };
          ScriptRun r2 = run_script(d, script, &pr.skip, -1, 0);
          ssize_t w = write(sp[1], r2.digests.data(), r2.digests.size() * sizeof(uint64_t)); (void)w;
          _exit(0);
        }
        close(sp[1]);
        std::string buf; char b[4096]; ssize_t n; buf.reserve(script.size() * sizeof(uint64_t) + 8192);
        while ((n = read(sp[0], b, sizeof b)) > 0) buf.append(b, (size_t)n);
        close(sp[0]);
        int st2 = 0; waitpid(p2, &st2, 0);
        if (WIFEXITED(st2) && WEXITSTATUS(st2) == 0 && buf.size() == script.size() * sizeof(uint64_t)) {
          for (size_t i = 0; i < script.size(); i++) {
            uint64_t d2; memcpy(&d2, &buf[i * sizeof(uint64_t)], sizeof d2);
            if (!pr.skip[i] && d2 != pr.run.digests[i]) {
              pr.skip[i] = 1; g_stats["calls_unstable"]++;
              SymFailure f; f.call = i; f.what = ctx + " " + call_str(script[i]); f.report = "UNSTABLE answer: differs between two isolated executions with different heap layouts"; g_sym.push_back(f);
            }
          }
          g_stats["stability_passes"]++;
        } else g_stats["stability_pass_died"]++;
      }
      g_mask_hash = fnv1a(g_mask_hash, pr.skip.data(), pr.skip.size());
      return pr;
    }
    if (inflight < 0) { // died outside a call (iterator teardown): give up on this script
      SymFailure f; f.call = script.size(); f.what = ctx + " teardown"; f.report = report_of(err); g_sym.push_back(f);
      pr.skip.assign(script.size(), 1); pr.run = run; return pr;
    }
    SymFailure f; f.call = (size_t)inflight; f.what = ctx + " " + call_str(script[(size_t)inflight]);
    if (WIFSIGNALED(status) && WTERMSIG(status) == SIGVTALRM) f.report = "HANG (1.5 s of CPU time in one isolated reference call)";
    else f.report = report_of(err);
    g_sym.push_back(f);
    pr.skip[(size_t)inflight] = 1;
    resume = (size_t)inflight + 1;
    // an operation that keeps failing on this object is presumed unusable: stop probing it (bounds the forks)
    int op = script[(size_t)inflight].op;
    if (++crashes_by_op[op] >= 3) { for (size_t i = resume; i < script.size(); i++) if (script[i].op == op) { pr.skip[i] = 1; g_stats["calls_presumed_unsafe"]++; } }
    // an unsafe open makes the handle's later draws meaningless but harmless (NOHANDLE in both passes)
  }
  pr.skip.assign(script.size(), 1);
  return pr;
}

// can this object be saved at all?  (isolated: a crash in save() of the reference state is symmetric)
static bool probe_save(StringDictionary *d, const std::string &ctx) {
  int ep[2]; if (pipe(ep)) { perror("pipe"); _exit(97); }
  fflush(g_out);
  pid_t pid = fork();
  if (pid == 0) {
    g_in_child = true; g_death_spec = nullptr; death_info_update(); close(ep[0]); dup2(ep[1], 2);
    arm_watchdog(5.0);
    std::ostringstream os(std::ios::out | std::ios::binary); d->save(os);
    _exit(0);
  }
  close(ep[1]);
  std::string err; char buf[4096]; ssize_t n; err.reserve(24576);
  while ((n = read(ep[0], buf, sizeof buf)) > 0) if (err.size() < 20000) err.append(buf, (size_t)n);
  close(ep[0]);
  int status = 0; waitpid(pid, &status, 0);
  if (WIFEXITED(status) && WEXITSTATUS(status) == 0) return true;
  SymFailure f; f.call = 0; f.what = ctx + " save()"; f.report = report_of(err); g_sym.push_back(f);
  return false;
}

// ---- catalogue triples ---------------------------------------------------------------------------
struct Triple { uint32_t set = 0; int kind = 0; int pidx = 0; StringSet ss; Params p; };
static Triple make_triple(uint32_t set, int kind, int pidx) {
  Triple t; t.set = set; t.kind = kind; t.pidx = pidx;
  t.ss = catalogue_set(set, MAXN);
  t.p = param_grid(kind, pidx, t.ss.v.size());
  return t;
}
static Triple draw_triple(Prng &r, int kind_forced = -1) {
  uint32_t set = (uint32_t)r.below((uint64_t)g_catalogue);
  int kind = kind_forced >= 0 ? kind_forced : (int)r.below(K_COUNT);
  int pidx = (int)r.below(PARAM_GRID);
  return make_triple(set, kind, pidx);
}
static std::string triple_str(const Triple &t) {
  return std::string(kind_name(t.kind)) + "/set" + std::to_string(t.set) + "/p" + std::to_string(t.pidx) + "(" + params_spec(t.kind, t.p) + ",n=" + std::to_string(t.ss.v.size()) + ")";
}

// ---- simdisk helpers -------------------------------------------------------------------------------
static std::string save_image(StringDictionary *d, size_t put_chunk) {
  std::string file;
  SimStreambuf sb(&file, 0, 0, 0, 0);
  sb.set_put_chunk(put_chunk);
  std::ostream os(&sb);
  d->save(os);
  os.flush();
  sb.flush_put();
  g_stats["saves"]++;
  g_stats["put_overflows"] += (long)sb.st.overflows;
  if (const char *dd = getenv("VERIF_DUMP_DIR")) { // debugging aid: keep every image written
    static int n = 0; char path[512]; snprintf(path, sizeof path, "%s/run%llu-img%d.bin", dd, (unsigned long long)g_run_index, n++);
    if (FILE *f = fopen(path, "wb")) { fwrite(file.data(), 1, file.size(), f); fclose(f); }
  }
  return file;
}
struct LoadOut { StringDictionary *d = nullptr; size_t tell = 0, high_water = 0; bool failbit = false, eof = false; SimIoStats st; };
// loads one image that starts at `off` in `file`; generic = through StringDictionary::load
static LoadOut load_image(int kind, std::string &file, size_t off, const ChunkPolicy &cp, uint opt, bool generic) {
  LoadOut o;
  size_t lo = cp.zone_lo ? off + cp.zone_lo : 0, hi = cp.zone_hi ? off + cp.zone_hi : 0;
  SimStreambuf sb(&file, cp.small, lo, hi, cp.big);
  std::istream is(&sb);
  if (off) is.seekg((std::streamoff)off, std::ios_base::beg);
  o.d = generic ? StringDictionary::load(is, opt) : load_own(kind, is, opt);
  o.failbit = is.fail(); o.eof = is.eof();
  if (!is.fail()) o.tell = (size_t)is.tellg(); else { is.clear(); o.tell = (size_t)is.tellg(); }
  sb.sample();
  o.high_water = (size_t)sb.st.high_water; o.st = sb.st;
  g_stats["loads"]++;
  g_stats["underflows"] += (long)sb.st.underflows;
  g_stats["seek_backs"] += (long)sb.st.seek_backs;
  g_stats["straddling_seek_backs"] += (long)sb.st.straddling_seek_backs;
  return o;
}
static uint64_t dig_bytes(const std::string &s) { uint64_t n = s.size(); uint64_t h = fnv1a(FNV_INIT, &n, sizeof n); return fnv1a(h, s.data(), s.size()); }
static std::string first_diff(const std::string &a, const std::string &b) {
  size_t off = 0; while (off < a.size() && off < b.size() && a[off] == b[off]) off++;
  return "first differing offset " + std::to_string(off) + ", lengths " + std::to_string(a.size()) + " vs " + std::to_string(b.size());
}
static std::string poison(Prng &r, size_t n) { std::string s; for (size_t i = 0; i < n; i++) s += (char)r.below(256); return s; }

// an object of the lineage: built, or built+saved+destroyed+loaded (simulated restart)
struct Source { bool loaded = false; uint opt = 1; std::string image; ChunkPolicy cp; };
static StringDictionary *make_object(const Triple &t, Source &src, Prng &r) {
  if (!src.loaded) return build_dict(t.kind, t.ss.v, t.p);
  if (src.image.empty()) {
    StringDictionary *b = build_dict(t.kind, t.ss.v, t.p);
    src.image = save_image(b, (size_t)r.range(1, 4096));
    delete b;
    src.image += poison(r, 48);
    src.cp = ChunkPolicy::draw(r, src.image.size());
  }
  LoadOut lo = load_image(t.kind, src.image, 0, src.cp, src.opt, false);
  return lo.d;
}

// ====================================================================================================
// C14 — interleaved clients vs isolated reference
// ====================================================================================================
struct C14Plan {
  Triple t; Source src;
  // optional "noise" client: its calls go to a second dictionary of the same kind (different input),
  // so that state shared between instances (a static cache, a class-level scratch buffer) is disturbed
  int noise_client = -1; Triple nt; Source nsrc;
  std::vector<std::vector<Call>> scripts;
  std::vector<int> order;
};
static std::string script_str(const std::vector<Call> &s) { std::string o; for (size_t i = 0; i < s.size(); i++) { if (i) o += ";"; o += call_str(s[i]); } return o; }

static bool stateless(const Call &c) { return c.op == C_LOCATE || c.op == C_EXTRACT || c.op == C_LOCRANK || c.op == C_EXTRANK || c.op == C_NUM || c.op == C_MAXLEN; }
static bool same_call(const Call &a, const Call &b) { return a.op == b.op && a.arg == b.arg && a.id == b.id; }

static int run_c14_plan(C14Plan &pl, Prng &r, bool c16_checks) {
  const Triple &t = pl.t;
  g_kinds = kind_name(t.kind);
  size_t k = pl.scripts.size();
  g_shape = std::string(pl.src.loaded ? "loaded" : "built") + "/clients" + std::to_string(k);
  std::vector<ScriptRun> ref(k); std::vector<std::vector<char>> skip(k);
  g_refstate = pl.src.loaded ? "loaded" : "built";
  begin("ref", "isolated-reference");
  for (size_t c = 0; c < k; c++) {
    bool noise = (int)c == pl.noise_client;
    StringDictionary *d = noise ? make_object(pl.nt, pl.nsrc, r) : make_object(t, pl.src, r);
    if (!d) { emit("precondition_failed", "object_unavailable", "build/load returned NULL for " + triple_str(noise ? pl.nt : t)); return 0; }
    Probe pr = probe_script(d, pl.scripts[c], std::string(kind_name(t.kind)) + (pl.src.loaded ? " loaded" : " built"));
    ref[c] = pr.run; skip[c] = pr.skip;
    delete d;
    const ScriptRun &sr = ref[c];
    if (!c16_checks && sr.pattern_changed_at >= 0) {
      emit("violation", "pattern_buffer_modified", "client " + std::to_string(c) + " call " + std::to_string(sr.pattern_changed_at) + " " + call_str(pl.scripts[c][(size_t)sr.pattern_changed_at]) + " on " + triple_str(t) + " changed the caller's pattern buffer (isolated pass)");
      return 1;
    }
    if (c16_checks && sr.fabricated_at >= 0) {
      emit("violation", "unsupported_op_fabricated_answer", "call " + call_str(pl.scripts[c][(size_t)sr.fabricated_at]) + " on " + triple_str(t) + " returned a non-null answer although the kind does not provide the operation");
      return 1;
    }
    // the same stateless query twice in one script
    for (size_t i = 0; i < pl.scripts[c].size(); i++) for (size_t j = i + 1; j < pl.scripts[c].size(); j++)
      if (!skip[c][i] && !skip[c][j] && stateless(pl.scripts[c][i]) && same_call(pl.scripts[c][i], pl.scripts[c][j]) && sr.digests[i] != sr.digests[j]) {
        emit("violation", "same_query_different_answer", "client " + std::to_string(c) + " calls " + std::to_string(i) + " and " + std::to_string(j) + " " + call_str(pl.scripts[c][i]) + " on " + triple_str(t));
        return 1;
      }
  }
  begin("var", "interleaved");
  StringDictionary *shared = make_object(t, pl.src, r);
  if (!shared) { emit("violation", "object_unavailable_second_time", triple_str(t)); return 1; }
  StringDictionary *noiseobj = nullptr;
  if (pl.noise_client >= 0) { noiseobj = make_object(pl.nt, pl.nsrc, r); if (!noiseobj) { emit("violation", "object_unavailable_second_time", triple_str(pl.nt)); return 1; } g_stats["noise_dictionary"] = 1; }
  bool savable = true;
  if (c16_checks) { begin("ref", "save-before-unsupported"); savable = probe_save(shared, std::string(kind_name(t.kind)) + (pl.src.loaded ? " loaded" : " built")); begin("var", "interleaved"); }
  std::vector<ClientState> cs(k); std::vector<size_t> pos(k, 0);
  int maxopen = 0;
  for (size_t step = 0; step < pl.order.size(); step++) {
    size_t c = (size_t)pl.order[step];
    if (pos[c] >= pl.scripts[c].size()) continue;
    const Call &call = pl.scripts[c][pos[c]];
    if (skip[c][pos[c]]) { pos[c]++; g_stats["calls_skipped_symmetric"]++; continue; }
    CallResult cr = exec_call((int)c == pl.noise_client ? noiseobj : shared, cs[c], call);
    g_stats["calls_compared"]++;
    int open = 0; for (auto &s : cs) open += s.open_count();
    if (open > maxopen) maxopen = open;
    g_obs.add("ans:c" + std::to_string(c) + "." + std::to_string(pos[c]), cr.digest);
    if (!c16_checks && cr.pattern_changed) {
      emit("violation", "pattern_buffer_modified", "client " + std::to_string(c) + " call " + std::to_string(pos[c]) + " " + call_str(call) + " on " + triple_str(t) + " changed the caller's pattern buffer");
      return 1;
    }
    if (cr.digest != ref[c].digests[pos[c]]) {
      emit("violation", c16_checks && call.unsupported ? "unsupported_op_answer_depends_on_history" : "answer_depends_on_history",
           "client " + std::to_string(c) + " call " + std::to_string(pos[c]) + " " + call_str(call) + " on " + triple_str(t) + ": interleaved answer differs from the isolated answer on a fresh copy (interleaving step " + std::to_string(step) + ")");
      return 1;
    }
    pos[c]++;
  }
  bool dict_first = g_mode == "C07" && (mix64(g_run_seed, 0xd7) % 4 == 0) && !c16_checks;
  if (dict_first) {
    // C07: destroy order -- the dictionary goes first, the iterators it handed out afterwards
    // (their destructors may only touch what they own)
    begin("var", "destroy-dictionary-before-its-iterators");
    delete shared; shared = nullptr;
    begin("var", "destroy-iterators-after-dictionary");
    g_stats["dictionary_destroyed_before_iterators"]++;
  }
  for (auto &s : cs) s.close_all();
  if (c16_checks && savable) {
    // the object must still be savable and destroyable after the unsupported calls
    begin("var", "save-after-unsupported");
    std::string img = save_image(shared, 4096);
    g_obs.add("img:after-unsupported", dig_bytes(img));
  }
  delete shared;
  delete noiseobj;
  g_stats["max_open_iterators"] = maxopen;
  g_stats["clients"] = (long)k;
  size_t switches = 0; for (size_t i = 1; i < pl.order.size(); i++) switches += pl.order[i] != pl.order[i - 1];
  g_stats["client_switches"] = (long)switches;
  emit("ok", "", "");
  return 0;
}

static C14Plan gen_c14(Prng &r, bool force_unsupported) {
  C14Plan pl;
  pl.t = draw_triple(r);
  pl.src.loaded = r.chance(1, 2);
  pl.src.opt = takes_load_option(pl.t.kind) ? (uint)r.range(1, 3) : 1;
  if (pl.t.kind == K_XBW) pl.src.loaded = r.chance(9, 10); // a freshly built XBW object answers nothing (DESIGN §2.7)
  int k = (int)r.range(1, 4);
  QueryPool q = make_pool(pl.t.ss.v, r, 16);
  bool unsup = force_unsupported || r.chance(1, 4);
  for (int c = 0; c < k; c++) pl.scripts.push_back(gen_script(pl.t.kind, pl.t.p, q, r, (int)r.range(3, 12), unsup));
  if (k >= 2 && r.chance(1, 3)) {
    pl.noise_client = (int)r.below((uint64_t)k);
    pl.nt = make_triple((uint32_t)r.below((uint64_t)g_catalogue), pl.t.kind, (int)r.below(PARAM_GRID));
    pl.nsrc.loaded = pl.src.loaded; pl.nsrc.opt = pl.src.opt;
    QueryPool nq = make_pool(pl.nt.ss.v, r, 16);
    pl.scripts[(size_t)pl.noise_client] = gen_script(pl.nt.kind, pl.nt.p, nq, r, (int)r.range(3, 12), unsup);
  }
  std::vector<size_t> remain; for (auto &s : pl.scripts) remain.push_back(s.size());
  // seeded interleaving; sticky with probability 1/2 so that both fine and coarse interleavings occur
  int cur = -1; bool sticky = r.chance(1, 2);
  for (;;) {
    std::vector<int> live; for (int c = 0; c < k; c++) if (remain[(size_t)c]) live.push_back(c);
    if (live.empty()) break;
    int c;
    if (sticky && cur >= 0 && remain[(size_t)cur] && r.chance(2, 3)) c = cur; else c = live[r.below(live.size())];
    pl.order.push_back(c); remain[(size_t)c]--; cur = c;
  }
  return pl;
}

// explicit plan from a spec (replay / minimisation)
static bool parse_call(const std::string &s, Call &c) {
  size_t p = s.find('('); if (p == std::string::npos) return false;
  std::string name = s.substr(0, p);
  c = Call();
  int op = -1; for (int i = 0; i < C_OPS; i++) if (name == callop_name(i)) op = i;
  if (op < 0) return false;
  c.op = op;
  size_t e = s.find(')', p); std::string args = s.substr(p + 1, e - p - 1);
  std::string rest = s.substr(e + 1);
  if (!rest.empty() && rest.back() == '!') { c.unsupported = true; rest.pop_back(); }
  if (rest.compare(0, 3, "->h") == 0) c.handle = atoi(rest.c_str() + 3);
  switch (op) {
  case C_LOCATE: case C_LOCPREFIX: case C_EXTPREFIX: case C_LOCSUBSTR: case C_EXTSUBSTR: c.arg = unhex(args.substr(1)); break;
  case C_EXTRACT: case C_LOCRANK: case C_EXTRANK: c.id = strtoull(args.c_str(), nullptr, 10); break;
  case C_NEXT: { c.handle = atoi(args.c_str() + 1); size_t cm = args.find(','); c.count = atoi(args.c_str() + cm + 1); break; }
  case C_CLOSE: c.handle = atoi(args.c_str() + 1); break;
  }
  return true;
}
static std::vector<Call> parse_script(const std::string &s) {
  std::vector<Call> v; size_t i = 0;
  while (i < s.size()) { size_t j = s.find(';', i); if (j == std::string::npos) j = s.size(); Call c; if (j > i && parse_call(s.substr(i, j - i), c)) v.push_back(c); i = j + 1; }
  return v;
}
static std::string c14_spec(const C14Plan &pl) {
  std::ostringstream o;
  o << "set=" << pl.t.set << "|kind=" << kind_name(pl.t.kind) << "|pidx=" << pl.t.pidx << "|loaded=" << (int)pl.src.loaded << "|opt=" << pl.src.opt << "|clients=" << pl.scripts.size();
  if (pl.noise_client >= 0) o << "|nclient=" << pl.noise_client << "|nset=" << pl.nt.set << "|npidx=" << pl.nt.pidx;
  for (size_t c = 0; c < pl.scripts.size(); c++) o << "|s" << c << "=" << script_str(pl.scripts[c]);
  o << "|order="; for (size_t i = 0; i < pl.order.size(); i++) { if (i) o << "."; o << pl.order[i]; }
  return o.str();
}
static std::map<std::string, std::string> parse_bar(const std::string &s) {
  std::map<std::string, std::string> m; size_t i = 0;
  while (i < s.size()) { size_t j = s.find('|', i); if (j == std::string::npos) j = s.size(); std::string kv = s.substr(i, j - i); size_t e = kv.find('='); if (e != std::string::npos) m[kv.substr(0, e)] = kv.substr(e + 1); i = j + 1; }
  return m;
}
static C14Plan c14_from_spec(const std::map<std::string, std::string> &m) {
  C14Plan pl;
  pl.t = make_triple((uint32_t)strtoul(m.at("set").c_str(), 0, 10), kind_from(m.at("kind")), atoi(m.at("pidx").c_str()));
  pl.src.loaded = atoi(m.at("loaded").c_str()) != 0; pl.src.opt = (uint)atoi(m.at("opt").c_str());
  int k = atoi(m.at("clients").c_str());
  if (m.count("nclient")) { pl.noise_client = atoi(m.at("nclient").c_str()); pl.nt = make_triple((uint32_t)strtoul(m.at("nset").c_str(), 0, 10), pl.t.kind, atoi(m.at("npidx").c_str())); pl.nsrc.loaded = pl.src.loaded; pl.nsrc.opt = pl.src.opt; }
  for (int c = 0; c < k; c++) { auto it = m.find("s" + std::to_string(c)); pl.scripts.push_back(it == m.end() ? std::vector<Call>() : parse_script(it->second)); }
  const std::string &o = m.at("order"); size_t i = 0;
  while (i < o.size()) { size_t j = o.find('.', i); if (j == std::string::npos) j = o.size(); if (j > i) { int c = atoi(o.substr(i, j - i).c_str()); if (c >= 0 && c < k) pl.order.push_back(c); } i = j + 1; }
  // calls not covered by the order are appended client by client (keeps edited specs total)
  std::vector<size_t> used((size_t)k, 0); for (int c : pl.order) used[(size_t)c]++;
  for (int c = 0; c < k; c++) for (size_t u = used[(size_t)c]; u < pl.scripts[(size_t)c].size(); u++) pl.order.push_back(c);
  return pl;
}

// C14, long histories: after 65 600 further calls of the same operation a query is answered the way a fresh object
// answers it, and every one of those calls is answered like the first (counters that wrap, caches that fill up).
// One object, one client, small inputs; both queries are first answered in isolation (reference).
static int run_c14_long(Prng &r, uint64_t pair_index) {
  // (kind, operation) pairs are enumerated, one per long history, so that a sweep visits every pair
  static const int ops[] = {C_LOCATE, C_EXTRACT, C_LOCPREFIX, C_EXTPREFIX, C_LOCSUBSTR, C_EXTSUBSTR, C_LOCRANK, C_EXTRANK, C_TABLE};
  static std::vector<std::pair<int, int>> pairs;
  if (pairs.empty()) { Params dp; for (int k = 0; k < K_COUNT; k++) for (int o : ops) if (supported(k, callop_to_op(o), dp)) pairs.push_back({k, o}); }
  const int kind = pairs[pair_index % pairs.size()].first, op = pairs[pair_index % pairs.size()].second;
  Triple t; int guard = 0;
  // small inputs of short strings only: 65 800 queries have to stay cheap for every kind (one XBW query over 150-byte
  // strings costs milliseconds), and the bound has to be a function of the input, not of a measured time
  auto longest = [](const StringSet &ss) { size_t m = 0; for (auto &x : ss.v) m = std::max(m, x.size()); return m; };
  do { t = draw_triple(r, kind); } while ((t.ss.v.size() > 40 || t.ss.total() > 700 || t.ss.v.size() < 3 || longest(t.ss) > 24 || !supported(kind, callop_to_op(op), t.p)) && ++guard < 400);
  g_kinds = kind_name(t.kind);
  if (guard >= 400) { emit("precondition_failed", "no_small_set_drawn", ""); return 0; }
  Source src; src.loaded = t.kind == K_XBW ? true : r.chance(1, 2); src.opt = takes_load_option(t.kind) ? (uint)r.range(1, 3) : 1;
  QueryPool q = make_pool(t.ss.v, r, 16);
  auto mk = [&](size_t which) {
    std::vector<Call> v; Call c; c.op = op; c.handle = 0;
    auto pick = [&](size_t n) { return which % n; };
    switch (op) {
    case C_LOCATE: c.arg = q.members[pick(q.members.size())]; break;
    case C_EXTRACT: c.id = q.ids[pick(q.ids.size())]; break;
    case C_LOCRANK: case C_EXTRANK: c.id = q.ranks[pick(q.ranks.size())]; break;
    case C_LOCPREFIX: case C_EXTPREFIX: c.arg = q.prefixes[pick(q.prefixes.size())]; break;
    case C_LOCSUBSTR: case C_EXTSUBSTR: c.arg = q.substrs[pick(q.substrs.size())]; break;
    default: break;
    }
    v.push_back(c);
    if (op == C_LOCPREFIX || op == C_EXTPREFIX || op == C_LOCSUBSTR || op == C_EXTSUBSTR || op == C_TABLE) {
      Call n; n.op = C_NEXT; n.handle = 0; n.count = 1 << 20; v.push_back(n);
      Call cl; cl.op = C_CLOSE; cl.handle = 0; v.push_back(cl);
    }
    return v;
  };
  // A and C are asked at chosen positions among the filler query B (positions count the queries issued to this object):
  // A at 3, 259 and 65 795 -- the same query 2^8 and 2^16 queries after it was last asked, nothing but B in between;
  // C at 65 536 for the first time.  That is where time stamps, generation counters and the like come round again.
  size_t pool = op == C_LOCATE ? q.members.size() : op == C_EXTRACT ? q.ids.size() : (op == C_LOCRANK || op == C_EXTRANK) ? q.ranks.size()
              : (op == C_LOCPREFIX || op == C_EXTPREFIX) ? q.prefixes.size() : (op == C_LOCSUBSTR || op == C_EXTSUBSTR) ? q.substrs.size() : 1;
  pool = std::min<size_t>(pool, 10);
  const int reps = 65800;
  g_spec += "|long=1|triple=" + triple_str(t) + "|loaded=" + std::to_string((int)src.loaded) + "|opt=" + std::to_string(src.opt) + "|reps=" + std::to_string(reps);
  g_shape = std::string(src.loaded ? "loaded" : "built") + "/long/" + op_name(callop_to_op(op));
  g_refstate = src.loaded ? "loaded" : "built";
  begin("ref", "isolated-reference");
  StringDictionary *d = make_object(t, src, r);
  if (!d) { emit("precondition_failed", "object_unavailable", "build/load returned NULL for " + triple_str(t)); return 0; }
  // candidates are answered in isolation first; the first three that survive become A, B (filler) and C
  std::vector<std::vector<Call>> cand; std::vector<Call> all; std::vector<size_t> start;
  for (size_t i = 0; i < pool; i++) { cand.push_back(mk(i)); start.push_back(all.size()); all.insert(all.end(), cand.back().begin(), cand.back().end()); }
  Probe pc = probe_script(d, all, std::string(kind_name(t.kind)) + (src.loaded ? " loaded" : " built"));
  std::vector<size_t> ok;
  for (size_t i = 0; i < pool; i++) { bool good = true; for (size_t j = 0; j < cand[i].size(); j++) if (pc.skip[start[i] + j]) good = false; if (good) ok.push_back(i); }
  if (ok.empty()) { delete d; emit("precondition_failed", "reference_call_did_not_survive", triple_str(t)); return 0; }
  // A the first survivor, C the middle one (they coincide when few survive)
  size_t ia = ok.front(), ib = ok.back(), ic = ok[ok.size() / 2];
  // the filler is asked 65 000 times: take the survivor with the shortest argument (XBW spends 0.6 ms on an 80-byte prefix)
  for (size_t i : ok) if (cand[i][0].arg.size() < cand[ib][0].arg.size()) ib = i;
  if (ia == ib && ok.size() > 1) ia = ok[1] == ib ? ok[0] : ok[1];
  if (ic == ib && ok.size() > 2) for (size_t i : ok) if (i != ib && i != ia) { ic = i; break; }
  std::vector<Call> A = cand[ia], B = cand[ib], C = cand[ic], AB = A; AB.insert(AB.end(), B.begin(), B.end()); AB.insert(AB.end(), C.begin(), C.end());
  g_spec += "|a=" + script_str(A) + "|b=" + script_str(B) + "|c=" + script_str(C);
  Probe pr; pr.run.digests.clear();
  for (size_t j = 0; j < A.size(); j++) pr.run.digests.push_back(pc.run.digests[start[ia] + j]);
  for (size_t j = 0; j < B.size(); j++) pr.run.digests.push_back(pc.run.digests[start[ib] + j]);
  for (size_t j = 0; j < C.size(); j++) pr.run.digests.push_back(pc.run.digests[start[ic] + j]);
  for (size_t i = 0; i < AB.size(); i++) g_obs.add("ans:long." + std::to_string(i), pr.run.digests[i]);
  begin("var", "long-history");
  ClientState cs;
  for (int n = 1; n <= reps; n++) {
    // heartbeat: the supervisor's hang detector is on wall-clock silence, and the CPU-time budget of a step is per segment
    if ((n & 511) == 0) begin("var", "long-history");
    const std::vector<Call> &Q = (n == 3 || n == 259 || n == 65795) ? A : n == 65536 ? C : B;
    size_t base = (&Q == &A) ? 0 : (&Q == &B) ? A.size() : A.size() + B.size();
    for (size_t i = 0; i < Q.size(); i++) {
      CallResult cr = exec_call(d, cs, Q[i]);
      if (cr.digest != pr.run.digests[base + i]) {
        emit("violation", "answer_depends_on_history", "C14 " + triple_str(t) + (src.loaded ? " loaded: " : " built: ") + call_str(Q[i]) + " as query number " + std::to_string(n) + " of this object is answered differently than by a fresh object");
        return 1;
      }
    }
  }
  cs.close_all();
  begin("var", "destroy-after-long-history");
  delete d;
  g_stats["long_histories"] = 1; g_stats["calls_compared"] += (long)reps * (long)B.size();
  emit("ok", "", "");
  return 0;
}

// ====================================================================================================
// C08 — save is pure and deterministic
// ====================================================================================================
static int run_c08(Prng &r, int kind_forced, const std::string &ops_override) {
  Triple t = draw_triple(r, kind_forced);
  g_kinds = kind_name(t.kind);
  QueryPool q = make_pool(t.ss.v, r, 24);
  std::vector<Call> bat = battery_script(t.kind, t.p, q);
  bool with_battery = r.chance(3, 4);
  if (t.kind == K_XBW) with_battery = false; // a freshly built XBW object answers nothing (DESIGN §2.7)
  // op list: letters  S=save again  B=battery  I=save with iterators open  R=rebuild  L=load+resave chain  G=generic-load+resave
  std::string ops = ops_override;
  if (ops.empty()) {
    int n = (int)r.range(1, 6);
    static const char alphabet[] = "SSBIRLLGKN";
    for (int i = 0; i < n; i++) ops += alphabet[r.below(10)];
  }
  uint opt = takes_load_option(t.kind) ? (uint)r.range(1, 3) : 1;
  g_spec += "|triple=" + triple_str(t) + "|ops=" + ops + "|opt=" + std::to_string(opt) + "|battery=" + std::to_string((int)with_battery);
  g_shape = (with_battery ? "bat/" : "nobat/") + ops;
  g_refstate = "built";
  begin("ref", "build");
  StringDictionary *A = build_dict(t.kind, t.ss.v, t.p);
  ScriptRun b0; std::vector<char> sk(bat.size(), 0);
  if (with_battery) {
    begin("ref", "battery-before-save");
    Probe pr = probe_script(A, bat, std::string(kind_name(t.kind)) + " built");
    b0 = pr.run; sk = pr.skip;
    for (size_t i = 0; i < b0.digests.size(); i++) g_obs.add("bans:" + std::to_string(i), b0.digests[i]);
    long safe = 0; for (char c : sk) safe += !c; g_stats["battery_calls_safe"] += safe; g_stats["battery_calls_total"] += (long)sk.size();
  }
  // optionally an iterator is already open when the object is saved for the FIRST time (a save that
  // compacts or replaces a buffer only does so once): what it yields afterwards must be what an
  // undisturbed scan yields
  bool iter_first = with_battery && r.chance(1, 3);
  ClientState fs; CallResult u0, u1, u2; Call fo, fn1, fn2, fcl; bool iter_first_ok = false;
  if (iter_first) {
    fo.op = supported(t.kind, O_TABLE, t.p) ? C_TABLE : C_EXTPREFIX; fo.handle = 0; if (fo.op == C_EXTPREFIX) fo.arg = q.prefixes[0];
    fn1.op = C_NEXT; fn1.handle = 0; fn1.count = (int)r.range(1, 4);
    fn2.op = C_NEXT; fn2.handle = 0; fn2.count = 1 << 20;
    fcl.op = C_CLOSE; fcl.handle = 0;
    std::vector<Call> scan = {fo, fn1, fn2, fcl};
    begin("ref", "undisturbed-scan-before-first-save");
    Probe ps = probe_script(A, scan, std::string(kind_name(t.kind)) + " built scan");
    iter_first_ok = true; for (char c : ps.skip) if (c) iter_first_ok = false;
    if (iter_first_ok) { u0.digest = ps.run.digests[0]; u1.digest = ps.run.digests[1]; u2.digest = ps.run.digests[2]; exec_call(A, fs, fo); exec_call(A, fs, fn1); g_shape += "/iter-across-first-save"; }
  }
  begin("ref", "first-save");
  std::string img1 = save_image(A, (size_t)r.range(1, 4096));
  g_obs.add("img:first", dig_bytes(img1));
  if (iter_first && iter_first_ok) {
    begin("var", "iterator-continues-after-first-save");
    CallResult c2 = exec_call(A, fs, fn2); fs.close_all();
    if (c2.digest != u2.digest) { emit("violation", "save_disturbs_open_iterator", "C08.a " + triple_str(t) + " elements drawn after the first save differ from an undisturbed scan"); return 1; }
    g_stats["iterators_open_across_first_save"]++;
  }
  for (size_t oi = 0; oi < ops.size(); oi++) {
    char op = ops[oi];
    std::string tag = std::string(1, op) + std::to_string(oi);
    switch (op) {
    case 'S': {
      begin("var", "save-again");
      std::string img = save_image(A, (size_t)r.range(1, 4096));
      g_obs.add("img:" + tag, dig_bytes(img));
      if (img != img1) { emit("violation", "second_save_differs", "C08.b " + triple_str(t) + " save #" + std::to_string(oi + 2) + ": " + first_diff(img1, img)); return 1; }
      break;
    }
    case 'B': {
      if (!with_battery) break;
      begin("var", "battery-after-save");
      ScriptRun b = run_script(A, bat, &sk);
      for (size_t i = 0; i < b.digests.size(); i++) if (!sk[i] && b.digests[i] != b0.digests[i]) {
        emit("violation", "answers_changed_by_save", "C08.a " + triple_str(t) + " battery call " + std::to_string(i) + " " + call_str(bat[i]) + " answers differently after save"); return 1; }
      break;
    }
    case 'I': {
      // save while iterators are open: the elements drawn after the save must be those a fresh iterator yields
      int openop = supported(t.kind, O_TABLE, t.p) ? C_TABLE : C_EXTPREFIX;
      if (!with_battery) break;
      begin("var", "iterators-open-across-save");
      Call o; o.op = openop; o.handle = 0; if (openop == C_EXTPREFIX) o.arg = q.prefixes[0];
      Call n1; n1.op = C_NEXT; n1.handle = 0; n1.count = (int)r.range(1, 4);
      Call n2; n2.op = C_NEXT; n2.handle = 0; n2.count = 1 << 20;
      Call cl; cl.op = C_CLOSE; cl.handle = 0;
      { std::vector<Call> scan = {o, n1, n2, cl}; begin("ref", "undisturbed-scan"); Probe ps = probe_script(A, scan, std::string(kind_name(t.kind)) + " built scan"); bool bad = false; for (char c : ps.skip) bad |= c != 0; if (bad) break; begin("var", "iterators-open-across-save"); }
      ClientState ra; CallResult a0 = exec_call(A, ra, o), a1 = exec_call(A, ra, n1), a2 = exec_call(A, ra, n2); ra.close_all();
      ClientState rb; CallResult c0 = exec_call(A, rb, o), c1 = exec_call(A, rb, n1);
      std::string img = save_image(A, (size_t)r.range(1, 4096));
      CallResult c2 = exec_call(A, rb, n2); rb.close_all();
      g_obs.add("img:" + tag, dig_bytes(img));
      if (img != img1) { emit("violation", "second_save_differs", "C08.b " + triple_str(t) + " save with an iterator open: " + first_diff(img1, img)); return 1; }
      if (a0.digest != c0.digest || a1.digest != c1.digest || a2.digest != c2.digest) { emit("violation", "save_disturbs_open_iterator", "C08.a " + triple_str(t) + " elements drawn after save differ from an undisturbed scan"); return 1; }
      break;
    }
    case 'R': {
      begin("var", "rebuild");
      // unrelated allocations in between, so that addresses differ
      std::vector<char *> junk; for (int i = 0; i < 8; i++) junk.push_back(new char[(size_t)r.range(1, 5000)]);
      StringDictionary *A2 = build_dict(t.kind, t.ss.v, t.p);
      std::string img = save_image(A2, 4096);
      for (char *j : junk) delete[] j;
      delete A2;
      g_obs.add("img:" + tag, dig_bytes(img));
      if (img != img1) { emit("violation", "rebuild_differs", "C08.d " + triple_str(t) + " two builds from the same input: " + first_diff(img1, img)); return 1; }
      break;
    }
    case 'N': {
      // another dictionary of the same kind (other input) lives, is saved, reloaded, saved again and dies in between:
      // the images of this lineage are a function of its own content, not of what else the process has saved
      Triple nt = make_triple((uint32_t)((t.set + 1 + r.below((uint64_t)std::max(1, g_catalogue - 1))) % (uint64_t)g_catalogue), t.kind, (int)r.below(PARAM_GRID));
      uint nopt = takes_load_option(t.kind) ? (uint)r.range(1, 3) : 1;
      begin("ref", "noise-dictionary-probe");
      fflush(g_out);
      pid_t pid = fork();
      if (pid == 0) {
        g_in_child = true; g_death_spec = nullptr; death_info_update();
        int nul = open("/dev/null", O_WRONLY); dup2(nul, 2);
        arm_watchdog(5.0);
        StringDictionary *n1 = build_dict(nt.kind, nt.ss.v, nt.p);
        std::string ni = save_image(n1, 4096) + std::string(16, '\0'); delete n1;
        ChunkPolicy whole; whole.small = 0; whole.big = 0;
        LoadOut nl = load_image(nt.kind, ni, 0, whole, nopt, false);
        if (!nl.d) _exit(1);
        std::string ni2 = save_image(nl.d, 4096); delete nl.d;
        _exit(0);
      }
      int status = 0; waitpid(pid, &status, 0);
      if (!(WIFEXITED(status) && WEXITSTATUS(status) == 0)) { g_stats["noise_dictionary_skipped"]++; break; }
      begin("var", "noise-dictionary-saved-in-between");
      {
        StringDictionary *n1 = build_dict(nt.kind, nt.ss.v, nt.p);
        std::string ni = save_image(n1, 4096) + std::string(16, '\0'); delete n1;
        ChunkPolicy whole; whole.small = 0; whole.big = 0;
        LoadOut nl = load_image(nt.kind, ni, 0, whole, nopt, false);
        if (nl.d) { std::string ni2 = save_image(nl.d, 4096); delete nl.d; }
      }
      g_stats["noise_dictionaries"]++;
      break;
    }
    case 'K': {
      // the internal buffer reservation (MEMALLOC knob) is not a build parameter: it must not show in the image
      begin("var", "rebuild-with-other-reservation");
      Params p2 = t.p;
      static const unsigned long mems[] = {1, 2, 7, 64, 4096, 32768, 3, 16, 256};
      do { p2.memalloc = mems[r.below(9)]; } while (p2.memalloc == t.p.memalloc);
      StringDictionary *A3 = build_dict(t.kind, t.ss.v, p2);
      std::string img = save_image(A3, 4096);
      delete A3;
      g_obs.add("img:" + tag, dig_bytes(img));
      if (img != img1) { emit("violation", "image_depends_on_buffer_reservation", "C08.d " + triple_str(t) + " built again with MEMALLOC=" + std::to_string(p2.memalloc) + ": " + first_diff(img1, img)); return 1; }
      g_stats["rebuilds_with_other_knob"]++;
      break;
    }
    case 'L': case 'G': {
      bool generic = op == 'G';
      g_refstate = "loaded";
      begin("ref", generic ? "generic-load" : "own-load");
      std::string f = img1 + poison(r, 32);
      ChunkPolicy cp = ChunkPolicy::draw(r, f.size());
      LoadOut lo = load_image(t.kind, f, 0, cp, opt, generic);
      if (!lo.d) { emit("precondition_failed", "load_returned_null", triple_str(t)); return 0; }
      ScriptRun bl; std::vector<char> skl(bat.size(), 0);
      if (with_battery) {
        begin("ref", "battery-on-loaded");
        Probe pr = probe_script(lo.d, bat, std::string(kind_name(t.kind)) + " loaded");
        bl = pr.run; skl = pr.skip;
        for (size_t i = 0; i < bl.digests.size(); i++) g_obs.add("lans:" + tag + "." + std::to_string(i), bl.digests[i]);
      }
      // optionally an iterator is open across the first save of the LOADED object
      ClientState ls; CallResult lu2; Call lo_, ln1, ln2, lcl; bool liter = with_battery && r.chance(1, 3), liter_ok = false;
      if (liter) {
        lo_.op = supported(t.kind, O_TABLE, t.p) ? C_TABLE : C_EXTPREFIX; lo_.handle = 0; if (lo_.op == C_EXTPREFIX) lo_.arg = q.prefixes[0];
        ln1.op = C_NEXT; ln1.handle = 0; ln1.count = (int)r.range(1, 4);
        ln2.op = C_NEXT; ln2.handle = 0; ln2.count = 1 << 20;
        lcl.op = C_CLOSE; lcl.handle = 0;
        std::vector<Call> scan = {lo_, ln1, ln2, lcl};
        begin("ref", "undisturbed-scan-of-loaded-object");
        Probe ps = probe_script(lo.d, scan, std::string(kind_name(t.kind)) + " loaded scan");
        liter_ok = true; for (char c : ps.skip) if (c) liter_ok = false;
        if (liter_ok) { lu2.digest = ps.run.digests[2]; exec_call(lo.d, ls, lo_); exec_call(lo.d, ls, ln1); }
      }
      begin("var", "save-of-loaded-object");
      std::string img2 = save_image(lo.d, (size_t)r.range(1, 4096));
      if (liter && liter_ok) {
        begin("var", "iterator-continues-after-save-of-loaded-object");
        CallResult c2 = exec_call(lo.d, ls, ln2); ls.close_all();
        if (c2.digest != lu2.digest) { emit("violation", "save_disturbs_open_iterator", "C08.a (loaded object) " + triple_str(t) + " elements drawn after the first save differ from an undisturbed scan"); return 1; }
        g_stats["iterators_open_across_first_save"]++;
      }
      g_obs.add("img:" + tag + ".resave", dig_bytes(img2));
      // what a loaded object writes is a function of the image it was loaded from: a second, independent load of
      // the same image (whatever the process did in between) re-saves to the same bytes
      {
        static std::map<int, std::string> first_resave; static uint64_t first_resave_run = ~0ULL;
        if (first_resave_run != g_run_index) { first_resave.clear(); first_resave_run = g_run_index; }
        auto fr = first_resave.find((int)generic);
        if (fr == first_resave.end()) first_resave[(int)generic] = img2;
        else if (fr->second != img2) { emit("violation", "resave_of_loaded_object_depends_on_history", "C08.e " + triple_str(t) + " two loads of the same image re-save differently: " + first_diff(fr->second, img2)); return 1; }
        else g_stats["resave_repeatable"]++;
      }
      g_stats["resave_byte_identical"] += (img2 == img1);
      g_stats["resave_total"]++;
      begin("var", "second-save-of-loaded-object");
      std::string img3 = save_image(lo.d, 4096);
      if (img3 != img2) { emit("violation", "second_save_differs", "C08.b (loaded object) " + triple_str(t) + ": " + first_diff(img2, img3)); return 1; }
      if (with_battery) {
        begin("var", "battery-on-loaded-after-save");
        ScriptRun b = run_script(lo.d, bat, &skl);
        for (size_t i = 0; i < b.digests.size(); i++) if (!skl[i] && b.digests[i] != bl.digests[i]) { emit("violation", "answers_changed_by_save", "C08.a (loaded object) " + triple_str(t) + " call " + call_str(bat[i])); return 1; }
      }
      delete lo.d;
      begin("var", "load-of-resaved-image");
      std::string f2 = img2 + poison(r, 32);
      LoadOut l2 = load_image(t.kind, f2, 0, ChunkPolicy::draw(r, f2.size()), opt, generic);
      if (!l2.d) { emit("violation", "resaved_image_does_not_load", "C08.e " + triple_str(t) + " load(save(load(img))) returned NULL; " + first_diff(img1, img2)); return 1; }
      if (with_battery) {
        begin("var", "battery-on-reloaded");
        ScriptRun b = run_script(l2.d, bat, &skl);
        for (size_t i = 0; i < b.digests.size(); i++) if (!skl[i] && b.digests[i] != bl.digests[i]) { emit("violation", "resaved_image_not_equivalent", "C08.e " + triple_str(t) + " call " + call_str(bat[i]) + " answers differently after load(save(load(img)))"); return 1; }
      }
      delete l2.d;
      g_refstate = "built";
      break;
    }
    }
  }
  begin("var", "destroy");
  delete A;
  emit("ok", "", "");
  return 0;
}

// ====================================================================================================
// C06 — persistence round trip through a simulated restart
// ====================================================================================================
static int run_c06(Prng &r, int kind_forced) {
  int m = (int)r.range(1, 4);
  bool strong = r.chance(7, 10);
  std::vector<Triple> ts; std::vector<std::string> imgs; std::vector<ScriptRun> bats; std::vector<std::vector<Call>> scripts; std::vector<uint> opts; std::vector<std::vector<char>> masks;
  g_kinds.clear();
  for (int j = 0; j < m; j++) {
    Triple t = draw_triple(r, j == 0 ? kind_forced : -1);
    if (strong && t.kind == K_XBW && kind_forced < 0) t = make_triple(t.set, (int)r.below(K_XBW), t.pidx); // fresh XBW answers nothing: weak mode covers it
    ts.push_back(t);
    if (j) g_kinds += "+"; g_kinds += kind_name(t.kind);
    opts.push_back(takes_load_option(t.kind) ? (uint)r.range(1, 3) : 1);
  }
  g_shape = std::string(strong ? "strong" : "weak") + "/images" + std::to_string(m);
  g_refstate = strong ? "built" : "loaded";
  for (int j = 0; j < m; j++) g_spec += "|t" + std::to_string(j) + "=" + triple_str(ts[(size_t)j]);
  for (int j = 0; j < m; j++) {
    const Triple &t = ts[(size_t)j];
    QueryPool q = make_pool(t.ss.v, r, 24);
    scripts.push_back(battery_script(t.kind, t.p, q));
    begin("ref", std::string("build-") + kind_name(t.kind));
    StringDictionary *A = build_dict(t.kind, t.ss.v, t.p);
    ScriptRun b; masks.push_back(std::vector<char>(scripts.back().size(), 0));
    if (strong) {
      begin("ref", std::string("battery-built-") + kind_name(t.kind));
      Probe pr = probe_script(A, scripts.back(), std::string(kind_name(t.kind)) + " built");
      b = pr.run; masks.back() = pr.skip;
      for (size_t i = 0; i < b.digests.size(); i++) g_obs.add("bans:" + std::to_string(j) + "." + std::to_string(i), b.digests[i]);
      long safe = 0; for (char c : pr.skip) safe += !c; g_stats["battery_calls_safe"] += safe; g_stats["battery_calls_total"] += (long)pr.skip.size();
    }
    begin("ref", std::string("save-") + kind_name(t.kind));
    imgs.push_back(save_image(A, (size_t)r.range(1, 4096)));
    g_obs.add("img:" + std::to_string(j), dig_bytes(imgs.back()));
    delete A; // restart: nothing but the image survives
    bats.push_back(b);
  }
  if (!strong) {
    // weaker oracle: two independent loads agree (the first, plain one is the reference)
    for (int j = 0; j < m; j++) {
      const Triple &t = ts[(size_t)j];
      begin("ref", std::string("plain-load-") + kind_name(t.kind));
      std::string f = imgs[(size_t)j] + std::string(64, '\0');
      ChunkPolicy whole; whole.small = 0; whole.big = 0;
      LoadOut lo = load_image(t.kind, f, 0, whole, opts[(size_t)j], false);
      if (!lo.d) { emit("precondition_failed", "plain_load_returned_null", triple_str(t)); return 0; }
      { Probe pr = probe_script(lo.d, scripts[(size_t)j], std::string(kind_name(t.kind)) + " loaded"); bats[(size_t)j] = pr.run; masks[(size_t)j] = pr.skip; }
      for (size_t i = 0; i < bats[(size_t)j].digests.size(); i++) g_obs.add("bans:" + std::to_string(j) + "." + std::to_string(i), bats[(size_t)j].digests[i]);
      delete lo.d;
    }
    g_stats["weaker_oracle_runs"] = 1;
  }
  // one file, images back to back in seeded order, poisoned tail
  std::vector<int> order; for (int j = 0; j < m; j++) order.push_back(j);
  for (int j = m - 1; j > 0; j--) std::swap(order[(size_t)j], order[r.below((uint64_t)j + 1)]);
  std::string file; std::vector<size_t> offs((size_t)m), ends((size_t)m);
  for (int j : order) { offs[(size_t)j] = file.size(); file += imgs[(size_t)j]; ends[(size_t)j] = file.size(); }
  file += poison(r, 64);
  ChunkPolicy cp = ChunkPolicy::draw(r, file.size());
  // sequential read of all images from ONE stream through the kinds' own loaders
  {
    begin("var", "sequential-own-loaders");
    size_t lo_ = cp.zone_lo, hi_ = cp.zone_hi;
    SimStreambuf sb(&file, cp.small, lo_, hi_, cp.big);
    std::istream is(&sb);
    for (int j : order) {
      const Triple &t = ts[(size_t)j];
      begin("var", std::string("own-load-") + kind_name(t.kind));
      size_t before = (size_t)is.tellg();
      if (before != offs[(size_t)j]) { emit("violation", "image_not_self_delimiting", "C06 stream position " + std::to_string(before) + " != start of next image " + std::to_string(offs[(size_t)j]) + " before loading " + triple_str(t)); return 1; }
      uint64_t hw_before = sb.st.high_water;
      StringDictionary *L = load_own(t.kind, is, opts[(size_t)j]);
      g_stats["loads"]++;
      if (!L) { emit("violation", "loader_returned_null", "C06 own loader of " + triple_str(t) + " returned NULL for the image its save wrote"); return 1; }
      bool failed = is.fail(); if (failed) is.clear();
      size_t after = (size_t)is.tellg(); sb.sample();
      if (failed || after != ends[(size_t)j]) { emit("violation", "image_not_self_delimiting", "C06 own loader of " + triple_str(t) + " stopped at " + std::to_string(after) + (failed ? " (stream failed)" : "") + ", image ends at " + std::to_string(ends[(size_t)j])); return 1; }
      if (sb.st.high_water > ends[(size_t)j]) { emit("violation", "loader_reads_past_image", "C06 own loader of " + triple_str(t) + " consumed up to " + std::to_string(sb.st.high_water) + ", image ends at " + std::to_string(ends[(size_t)j])); return 1; }
      (void)hw_before;
      g_stats["tail_overread_checks"]++;
      begin("var", std::string("battery-loaded-") + kind_name(t.kind));
      ScriptRun b = run_script(L, scripts[(size_t)j], &masks[(size_t)j]);
      for (size_t i = 0; i < b.digests.size(); i++) g_obs.add("lans:" + std::to_string(j) + "." + std::to_string(i), b.digests[i]);
      for (size_t i = 0; i < b.digests.size(); i++) if (!masks[(size_t)j][i] && b.digests[i] != bats[(size_t)j].digests[i]) {
        emit("violation", "reloaded_answers_differ", std::string("C06 ") + triple_str(t) + " call " + std::to_string(i) + " " + call_str(scripts[(size_t)j][i]) + ": reloaded dictionary answers differently from the " + (strong ? "object that was saved" : "first load")); return 1; }
      begin("var", std::string("destroy-loaded-") + kind_name(t.kind));
      delete L;
    }
    g_stats["underflows"] += (long)sb.st.underflows; g_stats["seek_backs"] += (long)sb.st.seek_backs; g_stats["straddling_seek_backs"] += (long)sb.st.straddling_seek_backs;
  }
  // generic loader and load options, image alone at offset 0
  {
    int j = (int)r.below((uint64_t)m);
    const Triple &t = ts[(size_t)j];
    std::string f = imgs[(size_t)j] + poison(r, 32);
    std::vector<uint> optlist; optlist.push_back(opts[(size_t)j]);
    if (t.kind == K_HASHHF || t.kind == K_HASHRPF) { optlist.clear(); optlist = {1, 2, 3}; }
    for (uint o : optlist) {
      bool generic = r.chance(1, 2) || optlist.size() == 1;
      begin("var", std::string(generic ? "generic-load-" : "own-load-opt-") + kind_name(t.kind) + "-opt" + std::to_string(o));
      LoadOut lo = load_image(t.kind, f, 0, ChunkPolicy::draw(r, f.size()), o, generic);
      g_stats[generic ? "generic_loads" : "option_loads"]++;
      if (!lo.d) { emit("violation", generic ? "generic_loader_returned_null" : "loader_returned_null", std::string("C06 ") + (generic ? "StringDictionary::load" : "own loader") + " returned NULL for a valid image of " + triple_str(t) + " (opt " + std::to_string(o) + ")"); return 1; }
      ScriptRun b = run_script(lo.d, scripts[(size_t)j], &masks[(size_t)j]);
      for (size_t i = 0; i < b.digests.size(); i++) if (!masks[(size_t)j][i] && b.digests[i] != bats[(size_t)j].digests[i]) {
        emit("violation", optlist.size() > 1 ? "load_options_disagree" : "reloaded_answers_differ", std::string("C06 ") + triple_str(t) + " opt " + std::to_string(o) + (generic ? " generic" : " own") + " call " + call_str(scripts[(size_t)j][i])); return 1; }
      delete lo.d;
    }
  }
  emit("ok", "", "");
  return 0;
}

// ====================================================================================================
// C16 — enumerated faults: tag corruption, misdirected images; histories with unsupported calls
// ====================================================================================================
static std::map<int, std::string> g_image_cache; // kind -> valid image (built lazily, ref phase)
static bool probe_build(int kind, uint32_t set, int pidx) {
  fflush(g_out);
  pid_t pid = fork();
  if (pid == 0) {
    g_in_child = true; g_death_spec = nullptr; death_info_update();
    int nul = open("/dev/null", O_WRONLY); dup2(nul, 2);
    arm_watchdog(5.0);
    Triple t = make_triple(set, kind, pidx);
    StringDictionary *d = build_dict(kind, t.ss.v, t.p);
    std::ostringstream os(std::ios::out | std::ios::binary); d->save(os);
    std::string img = os.str() + std::string(16, '\0');
    ChunkPolicy whole; whole.small = 0; whole.big = 0;
    LoadOut lo = load_image(kind, img, 0, whole, 1, false);
    _exit(lo.d ? 0 : 1);
  }
  int status = 0; waitpid(pid, &status, 0);
  return WIFEXITED(status) && WEXITSTATUS(status) == 0;
}
// a valid image of the kind: the first of a fixed list of small catalogue entries whose build, save
// and reload survive in isolation (some entries trip over pure-input defects of the tree)
static const std::string &valid_image(int kind) {
  auto it = g_image_cache.find(kind);
  if (it != g_image_cache.end()) return it->second;
  begin("ref", std::string("build-valid-image-") + kind_name(kind));
  static const int cand[][2] = {{5, 2}, {0, 0}, {9, 3}, {13, 6}, {22, 1}, {30, 4}, {41, 7}, {2, 5}};
  for (auto &c : cand) {
    if (!probe_build(kind, (uint32_t)c[0], c[1])) continue;
    Triple t = make_triple((uint32_t)c[0], kind, c[1]);
    StringDictionary *d = build_dict(kind, t.ss.v, t.p);
    std::string img = save_image(d, 4096);
    delete d;
    return g_image_cache[kind] = img;
  }
  return g_image_cache[kind] = std::string(); // no candidate survives: the fault runs of this kind are skipped
}
static bool known_tag(uint32_t v) { for (int k = 0; k < K_COUNT; k++) if (kind_tag(k) == v) return true; return false; }

// part A index space: kind(13) x opt(5) x block(16+1+1): blocks 0..15 = tags 64*b..64*b+63, block 16 = neighbours of known tags, block 17 = seeded 32-bit values
static const int C16_BLOCKS = 18;
static long c16_partA_size() { return (long)K_COUNT * 5 * C16_BLOCKS; }
static long c16_partB_size() { return (long)K_COUNT * (K_COUNT - 1) * 3; }

static int run_c16(uint64_t index, Prng &r, int sampled_per_block) {
  long a = c16_partA_size(), b = c16_partB_size();
  long cyc = a + b;
  uint64_t lap = index / (uint64_t)(cyc * 2);
  long i = (long)(index % (uint64_t)(cyc * 2));
  if (i >= cyc) {
    // part C: histories with unsupported calls (every second index)
    C14Plan pl = gen_c14(r, true);
    g_spec += "|part=C|" + c14_spec(pl);
    g_stats["unsupported_histories"] = 1;
    long un = 0; for (auto &s : pl.scripts) for (auto &c : s) un += c.unsupported; g_stats["unsupported_calls"] = un;
    Prng rx; rx.seed(mix64(g_run_seed, 0xe8ec));
    return run_c14_plan(pl, rx, true);
  }
  if (i < a) {
    int kind = (int)(i % K_COUNT); int opt = (int)((i / K_COUNT) % 5); int blk = (int)(i / (K_COUNT * 5));
    g_kinds = kind_name(kind); g_shape = "tag-corruption/block" + std::to_string(blk);
    g_spec += "|part=A|kind=" + std::string(kind_name(kind)) + "|opt=" + std::to_string(opt) + "|block=" + std::to_string(blk) + "|lap=" + std::to_string(lap);
    const std::string &img = valid_image(kind);
    if (img.empty()) { emit("precondition_failed", "no_valid_image", kind_name(kind)); return 0; }
    std::vector<uint32_t> tags;
    if (blk < 16) for (uint32_t v = 64u * (uint32_t)blk; v < 64u * (uint32_t)blk + 64; v++) tags.push_back(v);
    else if (blk == 16) { for (int k = 0; k < K_COUNT; k++) { uint32_t t = kind_tag(k); tags.push_back(t + 1); tags.push_back(t - 1); for (int bit = 0; bit < 32; bit++) tags.push_back(t ^ (1u << bit)); } tags.push_back(0xFFFFFFFFu); tags.push_back(0x80000000u); }
    else { Prng tr; tr.seed(mix64(g_run_seed, 0x7a95)); for (int k = 0; k < sampled_per_block; k++) tags.push_back((uint32_t)tr.next()); }
    // sanity (ref): the intact image loads through its own loader
    begin("ref", "intact-image-loads");
    { std::string f = img + std::string(16, '\0'); ChunkPolicy whole; whole.small = 0; whole.big = 0; LoadOut lo = load_image(kind, f, 0, whole, 1, false); if (!lo.d) { emit("precondition_failed", "intact_image_does_not_load", kind_name(kind)); return 0; } delete lo.d; }
    begin("var", "corrupted-tag-generic-load");
    long n = 0;
    for (uint32_t tagv : tags) {
      if (known_tag(tagv)) continue;
      std::string f = img; memcpy(&f[0], &tagv, 4); f += std::string(16, '\0');
      ChunkPolicy cp = ChunkPolicy::draw(r, f.size());
      LoadOut lo = load_image(kind, f, 0, cp, (uint)opt, true);
      n++;
      if (lo.d) { emit("violation", "unknown_tag_accepted", "C16 StringDictionary::load returned a dictionary for type tag " + std::to_string(tagv) + " (image of " + kind_name(kind) + ", opt " + std::to_string(opt) + ")"); return 1; }
    }
    g_stats["tag_corruptions"] = n;
    g_obs.add("ans:tags", (uint64_t)n);
    emit("ok", "", "");
    return 0;
  }
  i -= a;
  int loader = (int)(i % K_COUNT); int other = (int)((i / K_COUNT) % (K_COUNT - 1)); int opt = 1 + (int)(i / (K_COUNT * (K_COUNT - 1)));
  int imgkind = other >= loader ? other + 1 : other;
  g_kinds = std::string(kind_name(loader)) + "<-" + kind_name(imgkind); g_shape = "misdirected";
  g_spec += "|part=B|loader=" + std::string(kind_name(loader)) + "|image=" + kind_name(imgkind) + "|opt=" + std::to_string(opt);
  const std::string &img = valid_image(imgkind);
  if (img.empty()) { emit("precondition_failed", "no_valid_image", kind_name(imgkind)); return 0; }
  begin("var", "misdirected-image");
  std::string f = img + poison(r, 32);
  LoadOut lo = load_image(loader, f, 0, ChunkPolicy::draw(r, f.size()), (uint)opt, false);
  g_stats["misdirected_images"] = 1;
  if (lo.d) { emit("violation", "foreign_image_accepted", std::string("C16 ") + kind_name(loader) + "::load returned a dictionary for an image of " + kind_name(imgkind)); return 1; }
  g_obs.add("ans:null", 1);
  emit("ok", "", "");
  return 0;
}

// ====================================================================================================
// driver
// ====================================================================================================
static int run_mode(const std::string &mode, uint64_t base, uint64_t index, const std::map<std::string, std::string> &ov) {
  g_obs = Obs(); g_stats.clear(); g_kinds.clear(); g_shape.clear(); g_sym.clear(); g_refstate = "built"; g_mask_hash = FNV_INIT;
  uint64_t tagv = mode == "C14" ? 0xC14 : mode == "C08" ? 0xC08 : mode == "C06" ? 0xC06 : mode == "C16" ? 0xC16 : 0xC07;
  g_run_seed = ov.count("runseed") ? strtoull(ov.at("runseed").c_str(), 0, 10) : mix64(mix64(base, tagv), index);
  Prng r; r.seed(g_run_seed);
  g_spec = "mode=" + mode + "|run=" + std::to_string(index) + "|runseed=" + std::to_string(g_run_seed) + "|cat=" + std::to_string(g_catalogue);
  Prng rx; rx.seed(mix64(g_run_seed, 0xe8ec)); // execution-time draws (chunking, poison) independent of how the plan was obtained
  int kf = ov.count("forcekind") ? kind_from(ov.at("forcekind")) : -1;
  std::string m = mode;
  if (mode == "C07") {
    // C07 draws a history family per run; every kind gets its share because the family generators draw kinds uniformly
    static const char *fam[] = {"C14", "C08", "C06", "C16", "C08", "C06"};
    m = fam[r.below(6)];
    g_spec += "|family=" + m;
  }
  if (ov.count("order")) { // explicit plan (replay of a minimised C14 / C16-part-C history)
    C14Plan pl = c14_from_spec(ov);
    g_spec += "|" + c14_spec(pl);
    return run_c14_plan(pl, rx, mode == "C16");
  }
  if (m == "C14") {
    if (mode == "C14" ? index % 16 == 5 : r.chance(1, 40)) return run_c14_long(r, mode == "C14" ? index / 16 : r.next());
    C14Plan pl = gen_c14(r, false);
    g_spec += "|" + c14_spec(pl);
    return run_c14_plan(pl, rx, false);
  }
  if (m == "C08") return run_c08(r, kf, ov.count("ops") ? ov.at("ops") : "");
  if (m == "C06") return run_c06(r, kf);
  if (m == "C16") return run_c16(mode == "C07" ? r.next() % 100000 : index, r, ov.count("sampled") ? atoi(ov.at("sampled").c_str()) : 64);
  return 2;
}


int main(int argc, char **argv) {
  disable_aslr(argv);
  // the library prints notices on stdout for unsupported calls: results go to a private fd
  int fd = dup(1);
  g_out = fdopen(fd, "w");
  int nul = open("/dev/null", O_WRONLY); dup2(nul, 1);
  install_death_cb(&g_spec);
  g_death_fd = fd;
  if (argc < 2) { fprintf(stderr, "usage: history_sim run <mode> <base> <first> <count> <catalogue> [k=v|...] | one <mode> <base> <index> <catalogue> | replay <spec>\n"); return 2; }
  std::string cmd = argv[1];
  if (cmd == "run" && argc >= 7) {
    g_mode = argv[2];
    uint64_t base = strtoull(argv[3], 0, 0), first = strtoull(argv[4], 0, 0), count = strtoull(argv[5], 0, 0);
    g_catalogue = atoi(argv[6]);
    std::map<std::string, std::string> ov = argc > 7 ? parse_bar(argv[7]) : std::map<std::string, std::string>();
    g_malloc_log = getenv("VERIF_LAYOUT") && atoi(getenv("VERIF_LAYOUT")) == 2; if (getenv("VERIF_LAYOUT_FROM")) g_malloc_log_from = strtoull(getenv("VERIF_LAYOUT_FROM"), 0, 10);
    const bool layout_probe = getenv("VERIF_LAYOUT") != nullptr; // debugging aid: is the worker's heap layout a function of the seed?
    for (uint64_t i = first; i < first + count; i++) {
      g_run_index = i; g_death_run = i;
      if (g_malloc_log) fprintf(stderr, "MHASH %llu %016llx\n", (unsigned long long)i, (unsigned long long)g_mhash);
      if (layout_probe) { void *a = malloc(24), *b = malloc(5000); fprintf(stderr, "LAYOUT %llu %p %p\n", (unsigned long long)i, a, b); free(a); free(b); }
      run_mode(g_mode, base, i, ov);
    }
    return 0;
  }
  if (cmd == "one" && argc >= 6) {
    g_mode = argv[2]; g_verbose = true; g_catalogue = atoi(argv[5]);
    g_run_index = strtoull(argv[4], 0, 0); g_death_run = g_run_index;
    std::map<std::string, std::string> ov = argc > 6 ? parse_bar(argv[6]) : std::map<std::string, std::string>();
    return run_mode(g_mode, strtoull(argv[3], 0, 0), g_run_index, ov);
  }
  if (cmd == "replay" && argc >= 3) {
    std::map<std::string, std::string> ov = parse_bar(argv[2]);
    g_mode = ov.count("mode") ? ov["mode"] : "C14"; g_verbose = true;
    g_catalogue = ov.count("cat") ? atoi(ov["cat"].c_str()) : 48;
    g_run_index = ov.count("run") ? strtoull(ov["run"].c_str(), 0, 10) : 0; g_death_run = g_run_index;
    return run_mode(g_mode, 0, g_run_index, ov);
  }
  fprintf(stderr, "bad arguments\n");
  return 2;
}
