"""Worker-process supervision: shards of seeds run in-process by harness workers, one JSON line
per run; a worker that dies (sanitizer, signal, simulator-fatal) is restarted at the next index and
the death is attributed to the run that was in flight.  DESIGN.md §2.6."""
import json
import os
import queue
import re
import subprocess
import threading
import time

NCPU = os.cpu_count() or 4


_REPORT_MARK = re.compile(r"==\d+==ERROR: |ERROR: AddressSanitizer|WARNING: ThreadSanitizer|runtime error: |Assertion `|terminate called")


def _clip(err, head=9000, tail=3000):
    """A long-lived worker may have written any amount of library chatter before it died: the sanitizer report
    is kept from its first line on (its header names the error class), whatever came before is cut to a short head."""
    if len(err) <= head + tail:
        return err
    m = _REPORT_MARK.search(err)
    if m:
        return err[:1500] + "\n...[clipped]...\n" + err[m.start():m.start() + head + tail]
    return err[:head] + "\n...[clipped]...\n" + err[-tail:]


def _reader(proc, q, tag):
    for line in proc.stdout:
        q.put((tag, line))
    q.put((tag, None))


class Shard:
    def __init__(self, first, count):
        self.next = first
        self.end = first + count


def run_shards(argv_fn, total, nworkers=None, env=None, first_index=0, hang_s=120, chunk=None, on_record=None,
               deadline=None, should_stop=None):
    """argv_fn(first, count) -> argv.  Calls on_record(rec) for every run: the worker's own JSON
    record, or a synthesized {"run":i,"verdict":"died",...}.  Returns stats dict."""
    nworkers = nworkers or NCPU
    if chunk is None:
        chunk = max(1, min(2000, (total + nworkers * 4 - 1) // (nworkers * 4)))
    pending = []
    i = first_index
    while i < first_index + total:
        c = min(chunk, first_index + total - i)
        pending.append(Shard(i, c))
        i += c
    pending.reverse()
    lock = threading.Lock()
    stats = {"processes": 0, "deaths": 0, "hangs": 0, "records": 0, "skipped_deadline": 0}
    fenv = dict(os.environ)
    if env:
        fenv.update(env)

    def worker():
        while True:
            with lock:
                if not pending:
                    return
                sh = pending.pop()
            while sh.next < sh.end:
                if (deadline and time.time() > deadline) or (should_stop and should_stop()):
                    with lock:
                        stats["skipped_deadline"] += sh.end - sh.next
                    break
                argv = argv_fn(sh.next, sh.end - sh.next)
                proc_first = sh.next
                proc = subprocess.Popen(argv, stdout=subprocess.PIPE, stderr=subprocess.PIPE, env=fenv, text=True,
                                        errors="replace", bufsize=1)
                with lock:
                    stats["processes"] += 1
                errbuf = []
                et = threading.Thread(target=lambda: errbuf.append(proc.stderr.read()), daemon=True)
                et.start()
                inflight = None
                phase = None
                step = None
                refstate = None
                partial = None
                reported = set()
                q = queue.Queue()
                rt = threading.Thread(target=_reader, args=(proc, q, 0), daemon=True)
                rt.start()
                hung = False
                while True:
                    try:
                        _, line = q.get(timeout=hang_s)
                    except queue.Empty:
                        hung = True
                        proc.kill()
                        break
                    if line is None:
                        break
                    line = line.strip()
                    if not line.startswith("{"):
                        continue
                    try:
                        rec = json.loads(line)
                    except ValueError:
                        continue
                    if "begin" in rec:
                        inflight = rec["begin"]
                        phase = rec.get("phase")
                        step = rec.get("step")
                        refstate = rec.get("refstate")
                        partial = None
                        continue
                    if "partial" in rec:
                        partial = rec
                        continue
                    if "run" in rec:
                        rec.setdefault("proc_first", proc_first)
                        reported.add(rec["run"])
                        with lock:
                            stats["records"] += 1
                        if on_record:
                            on_record(rec)
                rc = proc.wait()
                et.join(timeout=5)
                err = errbuf[0] if errbuf else ""
                if hung:
                    with lock:
                        stats["hangs"] += 1
                if inflight is not None and inflight not in reported:
                    rec = {"run": inflight, "verdict": "died", "exit": rc, "hung": hung, "stderr": _clip(err), "phase": phase, "step": step, "refstate": refstate, "proc_first": proc_first}
                    if partial:
                        rec["spec"] = partial.get("spec")
                        rec["trace"] = partial.get("trace")
                        rec["steps"] = partial.get("steps")
                    with lock:
                        stats["deaths"] += 1
                        stats["records"] += 1
                    if on_record:
                        on_record(rec)
                    sh.next = inflight + 1
                elif inflight is not None and (rc != 0 or hung):
                    # died right after reporting (simulator-fatal paths _exit after printing)
                    sh.next = inflight + 1
                elif rc != 0 and inflight is None:
                    rec = {"run": sh.next, "verdict": "died", "exit": rc, "hung": hung, "stderr": _clip(err), "startup": True}
                    with lock:
                        stats["deaths"] += 1
                    if on_record:
                        on_record(rec)
                    sh.next += 1
                else:
                    sh.next = sh.end

    ths = [threading.Thread(target=worker) for _ in range(nworkers)]
    for t in ths:
        t.start()
    for t in ths:
        t.join()
    return stats


def run_one(argv, env=None, timeout=120):
    """Run one process; returns (rc, list of JSON records, raw stdout, stderr)."""
    fenv = dict(os.environ)
    if env:
        fenv.update(env)
    try:
        r = subprocess.run(argv, capture_output=True, text=True, errors="replace", env=fenv, timeout=timeout)
        rc, out, err = r.returncode, r.stdout, r.stderr
    except subprocess.TimeoutExpired as e:
        rc, out, err = -999, (e.stdout or b"").decode(errors="replace") if isinstance(e.stdout, bytes) else (e.stdout or ""), "TIMEOUT"
    recs = []
    for line in out.splitlines():
        line = line.strip()
        if line.startswith("{"):
            try:
                recs.append(json.loads(line))
            except ValueError:
                pass
    return rc, recs, out, err


# ---- offline symbolisation (children run with symbolize=0: a crash costs milliseconds, not 100s of ms)
_SYM_CACHE = {}
_RAW_FRAME = re.compile(r"#(\d+) 0x[0-9a-f]+ +\((/[^\s+)]+)\+0x([0-9a-f]+)\)")


def symbolize_report(text):
    """Rewrites '#N 0xADDR (module+0xOFF)' frames as '#N 0xADDR in FUNC FILE:LINE' using llvm-symbolizer."""
    if not text or " in " in text and "(BuildId" not in text and not _RAW_FRAME.search(text):
        return text
    frames = _RAW_FRAME.findall(text)
    if not frames:
        return text
    need = {}
    for _, mod, off in frames:
        if (mod, off) not in _SYM_CACHE:
            need.setdefault(mod, []).append(off)
    for mod, offs in need.items():
        offs = sorted(set(offs))
        try:
            inp = "\n".join("0x" + o for o in offs) + "\n"
            r = subprocess.run(["llvm-symbolizer-14", "--obj=" + mod, "--functions=linkage", "--demangle", "--inlines"], input=inp, capture_output=True, text=True, timeout=120)
            blocks = r.stdout.split("\n\n")
            for o, b in zip(offs, blocks):
                lines = [l for l in b.strip().splitlines() if l.strip()]
                pairs = []
                for i in range(0, len(lines) - 1, 2):
                    pairs.append((lines[i].strip(), lines[i + 1].strip()))
                _SYM_CACHE[(mod, o)] = pairs or [("??", "??:0")]
        except Exception:
            for o in offs:
                _SYM_CACHE[(mod, o)] = [("??", "??:0")]
    out = []
    for line in text.splitlines():
        m = _RAW_FRAME.search(line)
        if not m:
            out.append(line)
            continue
        n, mod, off = m.groups()
        for fn, loc in _SYM_CACHE.get((mod, off), [("??", "??:0")]):
            out.append("    #%s 0x0 in %s %s" % (n, fn, loc))
    return "\n".join(out)


# ---- sanitizer report triage -------------------------------------------------------------------
_FRAME = re.compile(r"#\d+ 0x[0-9a-f]+ in (.+?) (/[^\s:]+)(?::(\d+))?")
_FRAME_TSAN = re.compile(r"#\d+ (.+?) (/[^\s:]+):\d+(?::\d+)? \(")


def classify_sanitizer(stderr, repo_prefix=None):
    """Returns dict(kind, first_repo_function, alloc_repo_function, summary) or None."""
    if not stderr:
        return None
    if repo_prefix is None:
        repo_prefix = os.environ.get("VERIF_REPO", "/repo").rstrip("/") + "/"
    stderr = symbolize_report(stderr)
    kind = None
    m = re.search(r"ERROR: AddressSanitizer: ([\w-]+)", stderr)
    if m:
        kind = "asan:" + m.group(1)
        if m.group(1) == "SEGV":
            kind = "asan:SEGV"
    if not kind:
        m = re.search(r"WARNING: ThreadSanitizer: ([\w -]+?) \(pid", stderr)
        if m:
            kind = "tsan:" + m.group(1).strip().replace(" ", "_")
    if not kind:
        m = re.search(r"runtime error: (.+)", stderr)
        if m:
            kind = "ubsan:" + re.sub(r"\d+", "N", m.group(1))[:60]
    if not kind:
        if "terminate called" in stderr or "std::terminate" in stderr:
            kind = "terminate"
        else:
            return None
    # first stack = up to first blank line after first frame
    first_fn = None
    alloc_fn = None
    section = 0
    tsan_fns = []
    for line in stderr.splitlines():
        if re.search(r"(allocated by|freed by|previously allocated)", line):
            section = 1
        fm = _FRAME.search(line) or _FRAME_TSAN.search(line)
        if fm:
            fn, path = fm.group(1), fm.group(2)
            fn = re.sub(r"\(.*$", "", fn).strip()
            if path.startswith(repo_prefix) and "/_build/" not in path:
                if section == 0 and first_fn is None:
                    first_fn = fn
                if section == 1 and alloc_fn is None:
                    alloc_fn = fn
                if kind.startswith("tsan") and fn not in tsan_fns:
                    tsan_fns.append(fn)
    sm = re.search(r"SUMMARY: (.+)", stderr)
    rm = re.search(r"of (\d+)-byte region", stderr)
    return {"kind": kind, "first_repo_function": first_fn, "alloc_repo_function": alloc_fn, "region_bytes": rm.group(1) if rm else "",
            "tsan_functions": tsan_fns[:6], "summary": sm.group(1)[:200] if sm else ""}


def class_of_death(rec):
    """Violation class string for a died record."""
    c = classify_sanitizer(rec.get("stderr", ""))
    if rec.get("hung") or rec.get("exit") == -26:
        return "hang", c
    if c:
        return "%s@%s" % (c["kind"], c["first_repo_function"] or "?"), c
    rc = rec.get("exit")
    if rc is not None and rc < 0:
        return "signal:%d" % (-rc), None
    return "exit:%s" % rc, None
