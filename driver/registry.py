"""Which check decides which property, with tier budgets (DESIGN §6)."""
import json
import sys

from . import build as B
from . import threadcheck as T
from . import historycheck as H

REAL_VS_STUB_THREADS = {
    "real": ["parallel/Worker.hpp (unmodified)", "StringDictionaryHASHRPDACBlocks constructor and every block builder", "libstdc++ std::thread/mutex/condition_variable wrappers", "glibc malloc / sanitizer allocator", "real pthreads (one released at a time)"],
    "simulated": ["blocking semantics of pthread mutex/condvar/join", "choice of which thread runs at every synchronisation point (and at opted-in basic-block boundaries)", "wake-up choice for pthread_cond_signal", "spurious wake-ups", "clock_gettime / nanosleep / timed waits (simulated clock)"],
}

ASSUME_THREADS = [
    "sequentially consistent interleaving at synchronisation points (plus seeded basic-block preemption inside Worker.hpp users and the blocks constructor); weak-memory effects are covered only indirectly through C11 (data-race freedom)",
    "seeded search over schedules, not exhaustive enumeration: a clean batch is evidence, not proof",
    "worker counts 1..6, tasks 0..8 (+nested), blocks inputs <= 120 strings from the closed catalogue",
]


def c10(a):
    runs = a.runs or (20000 if a.tier == "quick" else 10000000)
    budget = a.budget or (40 if a.tier == "quick" else 1500)
    return T.run_thread_check("C10", a.tier, [T.Part("pool_sim", "asan", runs)], budget, "DESIGN.md §4.1 C10", ASSUME_THREADS, REAL_VS_STUB_THREADS,
                              det_sample=2000 if a.tier == "quick" else 20000)


def c09(a):
    runs = a.runs or (4000 if a.tier == "quick" else 200000)
    budget = a.budget or (120 if a.tier == "quick" else 1800)
    cat = 48 if a.tier == "quick" else 512
    return T.run_thread_check("C09", a.tier, [T.Part("blocks_sim", "asan", runs, cat)], budget, "DESIGN.md §4.1 C09", ASSUME_THREADS, REAL_VS_STUB_THREADS,
                              det_sample=300 if a.tier == "quick" else 1500)


def c11(a):
    pr = a.runs or (10000 if a.tier == "quick" else 3000000)
    br = max(50, pr // 7) if a.runs else (1500 if a.tier == "quick" else 100000)
    budget = a.budget or (75 if a.tier == "quick" else 1800)
    cat = 48 if a.tier == "quick" else 512
    return T.run_thread_check("C11", a.tier, [T.Part("blocks_sim", "tsan", br, cat), T.Part("blocks_sim", "tsan", 96 if a.tier == "quick" else 3000, cat, cold=True), T.Part("pool_sim", "tsan", pr)], budget, "DESIGN.md §4.1 C11",
                              ASSUME_THREADS + ["ThreadSanitizer's happens-before analysis (bounded shadow history) is the race oracle; the scheduler's baton hand-over is invisible to it"],
                              REAL_VS_STUB_THREADS, det_sample=400 if a.tier == "quick" else 3000)


ASSUME_HIST = [
    "inputs come from the closed catalogue (DESIGN §2.5); VERIF_SEED drives the simulated dimensions (history, interleaving, stream chunking, universe, knob)",
    "differential oracles along the simulated dimension only; a failure of the reference execution is precondition_failed (attributed to C07), never a violation of this property",
    "uninitialised stack variables are not controlled by heap universes",
]


def hist(prop, mode, quick_runs, thorough_runs, quick_budget, thorough_budget, ref, level="exploration", c07=False):
    def f(a):
        runs = a.runs or (quick_runs if a.tier == "quick" else thorough_runs)
        budget = a.budget or (quick_budget if a.tier == "quick" else thorough_budget)
        cat = 48 if a.tier == "quick" else 512
        return H.run_history_check(prop, a.tier, mode, runs, cat, budget, ref, ASSUME_HIST, level=level, c07=c07)
    return f


CHECKS = {"C10": c10, "C09": c09, "C11": c11,
          "C14": hist("C14", "C14", 2500, 150000, 130, 1500, "DESIGN.md §4.1 C14"),
          "C08": hist("C08", "C08", 2500, 150000, 130, 1500, "DESIGN.md §4.1 C08"),
          "C06": hist("C06", "C06", 1200, 100000, 110, 1800, "DESIGN.md §4.1 C06"),
          "C16": hist("C16", "C16", 4000, 120000, 130, 1200, "DESIGN.md §4.1 C16", level="fault_enumeration"),
          "C07": None}


def c07(a):
    quick = a.tier == "quick"
    cat = 48 if quick else 512
    # schedule slice: the thread harnesses under ASan; any death counts, whichever phase
    parts = [T.Part("blocks_sim", "asan", 400 if quick else 40000, cat), T.Part("pool_sim", "asan", 2000 if quick else 200000)]
    ex, tcov = T.run_thread_check("C07", a.tier, parts, 25 if quick else 400, "DESIGN.md §4.1 C07", ASSUME_THREADS, REAL_VS_STUB_THREADS,
                                  det_sample=100, write_ev=False)
    slim = {k: tcov[k] for k in ("evaluations", "distinct_nontrivial", "verdicts", "strategies", "faults_fired", "violation_classes", "known_findings_hit", "parts") if k in tcov}
    runs = a.runs or (1500 if quick else 200000)
    budget = a.budget or (100 if quick else 1800)
    return H.run_history_check("C07", a.tier, "C07", runs, cat, budget, "DESIGN.md §4.1 C07", ASSUME_HIST, c07=True, extra_cov=slim, extra_exit=ex)


CHECKS["C07"] = c07


def setup(a):
    # build every variant once so that the first check does not pay for a cold cache
    for v, h in (("asan", "pool_sim"), ("asan", "blocks_sim"), ("asan", "history_sim"), ("tsan", "pool_sim"), ("tsan", "blocks_sim")):
        try:
            B.build(v, h, quiet=False)
        except B.BuildError as e:
            print("setup: build failed for %s/%s: %s" % (v, h, e), file=sys.stderr)
            return 1
    return 0


def dispatch(a):
    if a.what == "setup":
        return setup(a)
    if a.replay:
        rp = json.load(open(a.replay))
        if rp.get("harness") in ("pool_sim", "blocks_sim"):
            return T.replay_file(a.replay)
        if rp.get("harness") == "history_sim":
            return H.replay_file(a.replay)
        print("unknown replay harness", file=sys.stderr)
        return 2
    if a.what in CHECKS:
        return CHECKS[a.what](a)
    print("unknown check %s" % a.what, file=sys.stderr)
    return 2
