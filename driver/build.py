"""Rebuild harnesses from /repo's current working tree.  Objects are keyed by content hash
(file bytes + digest of every header + flags), never by mtime.  DESIGN.md §2.6."""
import concurrent.futures as cf
import fcntl
import hashlib
import os
import re
import subprocess
import sys
import time

REPO = os.environ.get("VERIF_REPO", "/repo")
VERIF = os.path.dirname(os.path.dirname(os.path.abspath(__file__)))
BUILD = os.path.join(VERIF, "build")
CXX = "clang++"
GUARD = "LIBCSD_VERIF"

COMMON = ["-std=c++17", "-O1", "-g", "-fno-omit-frame-pointer", "-D" + GUARD, "-w",
          "-I" + REPO, "-I" + REPO + "/libcds/includes"]
VARIANTS = {
    "asan": ["-fsanitize=address", "-fsanitize=array-bounds,return,unreachable", "-fno-sanitize-recover=all"],
    "tsan": ["-fsanitize=thread"],
    "plain": [],
}
LINK = {
    "asan": ["-fsanitize=address", "-fsanitize=array-bounds,return,unreachable"],
    "tsan": ["-fsanitize=thread"],
    "plain": [],
}
# TUs (repo-relative) that additionally get pc-guard preemption points (DESIGN §2.1)
PCGUARD_REPO_TUS = {"StringDictionaryHASHRPDACBlocks.cpp",
                    # the block builders (C11's anchors): preemption inside a build brings conflicting accesses of two
                    # builders close enough in time for ThreadSanitizer to still have both stacks
                    "StringDictionaryHASHRPDAC.cpp", "Hash/HashDAC.cpp", "RePair/RePair.cpp", "RePair/Coder/IRePair.cpp",
                    "RePair/Coder/heap.cpp", "RePair/Coder/hash.cpp", "RePair/Coder/records.cpp", "RePair/Coder/dictionary.cpp",
                    "RePair/Coder/arrayg.cpp", "RePair/Coder/basics.cpp", "utils/DAC_VLS.cpp", "utils/LogSequence.cpp"}
PCGUARD_FLAG = "-fsanitize-coverage=trace-pc-guard"


def _parse_sets(cmake_path, prefix):
    txt = open(cmake_path, encoding="utf-8", errors="replace").read()
    srcs = []
    for m in re.finditer(r"set\(\s*(\w+_srcs)\s+([^)]*)\)", txt):
        for line in m.group(2).splitlines():
            line = line.strip()
            if not line or line.startswith("#"):
                continue
            for tok in line.split():
                if tok.endswith(".cpp") or tok.endswith(".c"):
                    srcs.append(os.path.join(prefix, tok))
    seen, out = set(), []
    for s in srcs:
        if s not in seen:
            seen.add(s)
            out.append(s)
    return out


def repo_sources():
    a = _parse_sets(os.path.join(REPO, "CMakeLists.txt"), "")
    b = _parse_sets(os.path.join(REPO, "libcds", "CMakeLists.txt"), "libcds")
    return [s for s in a + b if os.path.exists(os.path.join(REPO, s))]


def _digest_files(paths):
    h = hashlib.sha256()
    for p in sorted(paths):
        h.update(p.encode())
        try:
            with open(p, "rb") as f:
                h.update(hashlib.sha256(f.read()).digest())
        except OSError:
            h.update(b"<missing>")
    return h.hexdigest()


def headers_digest():
    hs = []
    for root, dirs, files in os.walk(REPO):
        dirs[:] = [d for d in dirs if d not in ("_build", ".git", "build")]
        for f in files:
            if f.endswith((".h", ".hpp", ".hh", ".inc", ".tcc")):
                hs.append(os.path.join(root, f))
    return _digest_files(hs)


def verif_headers_digest():
    hs = []
    for d in ("sim", "harness"):
        for f in os.listdir(os.path.join(VERIF, d)):
            if f.endswith(".h"):
                hs.append(os.path.join(VERIF, d, f))
    return _digest_files(hs)


def _compile(src, obj, flags):
    if os.path.exists(obj):
        os.utime(obj, None)
        return None
    tmp = obj + ".tmp%d" % os.getpid()
    r = subprocess.run([CXX] + flags + ["-c", src, "-o", tmp], capture_output=True, text=True)
    if r.returncode != 0:
        return "compile failed: %s\n%s" % (src, r.stderr[-4000:])
    os.replace(tmp, obj)
    return None


def _key(*parts):
    h = hashlib.sha256()
    for x in parts:
        if isinstance(x, str):
            x = x.encode()
        h.update(hashlib.sha256(x).digest())
    return h.hexdigest()[:24]


class BuildError(Exception):
    pass


def build(variant, harness, jobs=16, quiet=True):
    """Returns path of the harness executable built from the current /repo tree."""
    vdir = os.path.join(BUILD, variant)
    odir = os.path.join(vdir, "obj")
    os.makedirs(odir, exist_ok=True)
    lock = open(os.path.join(vdir, ".lock"), "w")
    fcntl.flock(lock, fcntl.LOCK_EX)
    try:
        t0 = time.time()
        hd = headers_digest()
        vhd = verif_headers_digest()
        vflags = COMMON + VARIANTS[variant]
        tasks = []  # (src, obj, flags)
        lib_objs = []
        needs_lib = harness != "pool_sim"
        if needs_lib:
            for s in repo_sources():
                p = os.path.join(REPO, s)
                fl = list(vflags)
                if s in PCGUARD_REPO_TUS:
                    fl.append(PCGUARD_FLAG)
                key = _key(open(p, "rb").read(), hd, " ".join(fl), s)
                obj = os.path.join(odir, "r_" + key + ".o")
                tasks.append((p, obj, fl))
                lib_objs.append(obj)
        # harness TU (sanitized, pc-guard, may look at private members)
        hsrc = os.path.join(VERIF, "harness", harness + ".cpp")
        hfl = vflags + [PCGUARD_FLAG, "-fno-access-control", "-I" + VERIF]
        hkey = _key(open(hsrc, "rb").read(), hd, vhd, " ".join(hfl))
        hobj = os.path.join(odir, "h_" + key_name(harness) + "_" + hkey + ".o")
        tasks.append((hsrc, hobj, hfl))
        # simulator core: never sanitized
        ssrc = os.path.join(VERIF, "sim", "simthread.cpp")
        sfl = ["-std=c++17", "-O2", "-g", "-fno-omit-frame-pointer", "-w"]
        skey = _key(open(ssrc, "rb").read(), vhd, " ".join(sfl))
        sobj = os.path.join(odir, "s_" + skey + ".o")
        tasks.append((ssrc, sobj, sfl))
        errs = []
        with cf.ThreadPoolExecutor(max_workers=jobs) as ex:
            for e in ex.map(lambda t: _compile(*t), tasks):
                if e:
                    errs.append(e)
        if errs:
            raise BuildError("\n".join(errs[:3]))
        allkey = hashlib.sha256(" ".join(lib_objs + [hobj, sobj]).encode()).hexdigest()[:24]
        exe = os.path.join(vdir, "%s-%s" % (harness, allkey))
        if not os.path.exists(exe):
            link_inputs = [hobj, sobj]
            if needs_lib:
                lib = os.path.join(vdir, "libcsd-%s.a" % hashlib.sha256(" ".join(lib_objs).encode()).hexdigest()[:24])
                if not os.path.exists(lib):
                    tmp = lib + ".tmp%d" % os.getpid()
                    if os.path.exists(tmp):
                        os.unlink(tmp)
                    r = subprocess.run(["ar", "rcs", tmp] + lib_objs, capture_output=True, text=True)
                    if r.returncode:
                        raise BuildError("ar failed: " + r.stderr)
                    os.replace(tmp, lib)
                link_inputs.append(lib)
            tmp = exe + ".tmp%d" % os.getpid()
            r = subprocess.run([CXX] + LINK[variant] + ["-rdynamic"] + link_inputs + ["-o", tmp, "-lpthread", "-ldl"],
                               capture_output=True, text=True)
            if r.returncode:
                raise BuildError("link failed: " + r.stderr[-4000:])
            os.replace(tmp, exe)
        else:
            os.utime(exe, None)
        _prune(vdir)
        if not quiet:
            print("[build] %s/%s ready in %.1fs" % (variant, harness, time.time() - t0), file=sys.stderr)
        return exe
    finally:
        fcntl.flock(lock, fcntl.LOCK_UN)
        lock.close()


def key_name(h):
    return re.sub(r"\W", "_", h)


def _prune(vdir, keep_s=6 * 3600, max_bytes=3 << 29):
    """Drop objects/executables not used recently when the cache grows large."""
    files = []
    for root, _, fs in os.walk(vdir):
        for f in fs:
            if f == ".lock":
                continue
            p = os.path.join(root, f)
            try:
                st = os.stat(p)
                files.append((st.st_mtime, st.st_size, p))
            except OSError:
                pass
    total = sum(s for _, s, _ in files)
    if total <= max_bytes:
        return
    now = time.time()
    for mt, sz, p in sorted(files):
        if total <= max_bytes // 2:
            break
        if now - mt > 600:
            try:
                os.unlink(p)
                total -= sz
            except OSError:
                pass


if __name__ == "__main__":
    v, h = sys.argv[1], sys.argv[2]
    print(build(v, h, quiet=False))
