"""Checks decided by history_sim: C14, C08, C06, C16 and the history part of C07.
Every history is executed in two (thorough: three) heap universes (ASAN_OPTIONS fill bytes); the
observable digests of the universes are compared run by run."""
import collections
import json
import os
import re
import subprocess
import sys
import time

from . import build as B
from . import supervisor as S
from .common import Budget, base_seed, load_known, match_known, write_evidence, write_replay

UNIVERSES = [("00", "ff"), ("a5", "5a"), ("ff", "00")]


def universe_env(u):
    mf, ff = UNIVERSES[u]
    return {"ASAN_OPTIONS": "symbolize=0:max_malloc_fill_size=268435456:malloc_fill_byte=%d:max_free_fill_size=268435456:free_fill_byte=%d" % (int(mf, 16), int(ff, 16))}


def argv_run(exe, mode, base, first, count, cat, extra=""):
    a = [exe, "run", mode, str(base), str(first), str(count), str(cat)]
    if extra:
        a.append(extra)
    return a


def argv_one(exe, mode, base, index, cat, extra=""):
    a = [exe, "one", mode, str(base), str(index), str(cat)]
    if extra:
        a.append(extra)
    return a


def known_c07_query_defect(d):
    """A death inside a query whose top /repo frame is one of the unrepaired pure-input defects listed for C07:
    whether it strikes in the reference or only in the varied pass depends on heap layout, so it is never attributed
    to a differential property (deterministic rule; the per-sweep contrast set of §11.2 comes on top)."""
    for e in load_known():
        if e.get("property") != "C07" or e.get("status") != "known":
            continue
        rx = e.get("match", {}).get("class")
        if rx and rx.startswith("asan:") and re.fullmatch(rx, d.get("class", "")):
            kinds = e.get("match", {}).get("dict_kind")
            if kinds is None or re.fullmatch(kinds, d.get("dict_kind", "")):
                return e.get("class")
    return None


def death_desc(rec):
    cls, san = S.class_of_death(rec)
    d = {"class": cls, "phase": rec.get("phase") or "?", "step": rec.get("step") or "?"}
    if san:
        d["kind"] = san["kind"]
        d["first_repo_function"] = san["first_repo_function"] or "?"
        d["alloc_repo_function"] = san["alloc_repo_function"] or ""
        d["region_bytes"] = san.get("region_bytes", "")
    if "Assertion" in rec.get("stderr", ""):
        m = re.search(r"Assertion `(.+?)' failed", rec["stderr"])
        d["class"] = "assert:" + (m.group(1)[:60] if m else "?")
    return d


def dict_kind_of(rec):
    st0 = rec.get("step") or ""
    m0 = re.search(r"-(PFC|RPFC|HTFC|HHTFC|RPHTFC|RPDAC|HASHHF|HASHRPF|HASHUFFDAC|HASHRPDACBlocks|HASHRPDAC|FMINDEX|XBW)(-|$)", st0)
    if m0:
        return m0.group(1)
    sp = rec.get("spec") or ""
    m = re.search(r"triple=(\w+)/", sp) or re.search(r"\|kind=(\w+)", sp) or re.search(r"\|t0=(\w+)/", sp)
    if m:
        return m.group(1)
    st = rec.get("step") or ""
    m = re.search(r"-(PFC|RPFC|HTFC|HHTFC|RPHTFC|RPDAC|HASHHF|HASHRPF|HASHUFFDAC|HASHRPDACBlocks|HASHRPDAC|FMINDEX|XBW)", st)
    return m.group(1) if m else (rec.get("kinds") or "?")


class HistoryRun:
    """Runs one mode over [0, runs) in `nuni` universes and collects records."""

    def __init__(self, mode, runs, cat, seed, nuni, budget, extra=""):
        self.mode, self.runs, self.cat, self.seed, self.nuni, self.extra = mode, runs, cat, seed, nuni, extra
        self.exe = B.build("asan", "history_sim")
        self.recs = [dict() for _ in range(nuni)]   # universe -> run -> rec
        self.sup = []
        per = max(2, S.NCPU // nuni)
        import threading
        ths = []
        stats = [None] * nuni

        def go(u):
            def on(rec, u=u):
                self.recs[u][rec["run"]] = rec
            stats[u] = S.run_shards(lambda f, c: argv_run(self.exe, mode, seed, f, c, cat, extra), runs, nworkers=per,
                                    env=universe_env(u), on_record=on, deadline=budget.deadline(0.7), hang_s=40)
        for u in range(nuni):
            t = threading.Thread(target=go, args=(u,))
            t.start()
            ths.append(t)
        for t in ths:
            t.join()
        self.sup = stats


def run_history_check(prop, tier, mode, runs, cat, budget_s, design_ref, assumptions, level="exploration", extra="", c07=False, extra_cov=None, extra_exit=0):
    t0 = time.time()
    budget = Budget(budget_s)
    seed = base_seed(tier)
    nuni = 2 if tier == "quick" else 3
    try:
        hr = HistoryRun(mode, runs, cat, seed, nuni, budget, extra)
    except B.BuildError as e:
        print("BUILD-ERROR %s" % e, file=sys.stderr)
        return 2
    agg = {"verdicts": collections.Counter(), "kinds": collections.Counter(), "shapes": set(), "stats": collections.Counter(),
           "precondition_failed": collections.Counter(), "other": collections.Counter(), "universe_pairs_compared": 0}
    candidates = collections.OrderedDict()  # class key -> list of (universe, rec, desc)
    evaluations = 0
    nontrivial = set()
    # pass 1: symmetric failures (isolated reference calls that did not survive, reference-phase
    # deaths).  Their functions are "known to fail on their own": a varied-phase death inside one of
    # them is ambiguous (layout-dependent wild read) and is not attributed to the property under test.
    sym_functions = collections.Counter()
    sym_items = []
    for u in range(nuni):
        for run, rec in hr.recs[u].items():
            for sf in rec.get("sym") or []:
                rep = sf.get("report") or ""
                if rep.startswith("HANG"):
                    d = {"class": "hang", "kind": "hang", "first_repo_function": "?"}
                elif rep.startswith("UNSTABLE"):
                    d = {"class": "unstable_answer", "kind": "unstable", "first_repo_function": None}
                else:
                    d = death_desc({"stderr": rep, "exit": 77})
                w = (sf.get("what") or "? ?").split(" ")
                d["dict_kind"] = w[0]
                d["state"] = w[1] if len(w) > 1 else "?"
                d["what"] = sf.get("what")
                d.update({"phase": "ref", "step": "isolated-reference-call", "harness": "history", "mode": mode})
                if d.get("first_repo_function"):
                    sym_functions[(d["first_repo_function"], d["dict_kind"], d["state"])] += 1
                sym_items.append((u, rec, d))
            if rec["verdict"] == "died" and (rec.get("phase") or "ref") == "ref":
                d = death_desc(rec)
                if d.get("first_repo_function"):
                    sym_functions[(d["first_repo_function"], dict_kind_of(rec), rec.get("refstate") or "built")] += 1
    agg["symmetric_failures"] = len(sym_items)
    if c07:
        for u, rec, d in sym_items:
            if d["class"].startswith("exit:"):
                # the child was killed but left no parsable report (seen twice in 74 000 histories on a loaded
                # machine, never on re-execution): counted, not a candidate -- there is no call site to name
                agg["other"]["isolated reference call died without a parsable report [%s]" % d["dict_kind"]] += 1
                continue
            candidates.setdefault("%s|%s|sym" % (d["class"], d["dict_kind"]), []).append((u, rec, d))
    for u in range(nuni):
        for run, rec in sorted(hr.recs[u].items()):
            evaluations += 1
            v = rec["verdict"]
            if v == "died":
                d = death_desc(rec)
                d["dict_kind"] = dict_kind_of(rec)
                d["harness"] = "history"
                d["mode"] = mode
                m = re.search(r"\|opt=(\d+)", rec.get("spec") or "")
                d["opt"] = m.group(1) if m else ""
                agg["verdicts"]["died"] += 1
                key = "%s|%s|%s" % (d["class"], d["dict_kind"], d["step"] if not c07 else "")
                if c07:
                    candidates.setdefault(key, []).append((u, rec, d))
                elif d["phase"] == "var" and known_c07_query_defect(d) and not d["step"].startswith(("save", "second-save", "load-of", "own-load", "generic-load", "destroy", "sequential", "corrupted", "misdirected")):
                    agg["precondition_failed"]["ambiguous: %s [%s] %s (unrepaired pure-input defect listed for C07: %s)" % (d["class"], d["dict_kind"], d["step"], known_c07_query_defect(d))] += 1
                elif d["phase"] == "var" and (d.get("first_repo_function"), d["dict_kind"], rec.get("refstate") or "built") in sym_functions and not d["step"].startswith(("save", "second-save", "load-of", "own-load", "generic-load", "destroy", "sequential", "corrupted", "misdirected")):
                    agg["precondition_failed"]["ambiguous: %s [%s] %s (function also fails in isolated reference calls)" % (d["class"], d["dict_kind"], d["step"])] += 1
                elif d["phase"] == "var":
                    candidates.setdefault(key, []).append((u, rec, d))
                else:
                    agg["precondition_failed"]["%s [%s] %s" % (d["class"], d["dict_kind"], d["step"])] += 1
                continue
            agg["verdicts"][v] += 1
            for k in (rec.get("kinds") or "").replace("<-", "+").split("+"):
                if k:
                    agg["kinds"][k] += 1
            for k, x in (rec.get("stats") or {}).items():
                agg["stats"][k] += x
            sig = (rec.get("kinds"), rec.get("shape"), rec.get("obs_ans"), rec.get("obs_lans"), rec.get("obs_img"))
            if v == "ok" and rec.get("shape"):
                nontrivial.add(sig)
            if v == "precondition_failed":
                agg["precondition_failed"]["%s [%s]" % (rec.get("class"), rec.get("kinds"))] += 1
            elif v == "violation":
                d = {"class": rec["class"], "dict_kind": dict_kind_of(rec), "harness": "history", "mode": mode, "phase": "var", "step": "oracle"}
                m = re.search(r"\|opt=(\d+)", rec.get("spec") or "")
                d["opt"] = m.group(1) if m else ""
                if c07:
                    agg["other"][rec["class"]] += 1   # C07 reports memory errors, hangs and universe differences only
                else:
                    candidates.setdefault("%s|%s|" % (rec["class"], d["dict_kind"]), []).append((u, rec, d))
    # ---- heap universes: same history, different garbage, same observables ----
    for run, r0 in hr.recs[0].items():
        if r0["verdict"] != "ok":
            continue
        for u in range(1, nuni):
            r1 = hr.recs[u].get(run)
            if not r1 or r1["verdict"] != "ok":
                continue
            agg["universe_pairs_compared"] += 1
            keys = ("obs_img", "obs_ans", "obs_bans", "obs_lans") if r0.get("mask") == r1.get("mask") else ("obs_img",)
            if r0.get("mask") != r1.get("mask"):
                agg["other"]["universe_difference:set_of_surviving_reference_calls"] += 1
            diffs = [k for k in keys if k != "obs_img" and r0.get(k) != r1.get(k)]
            # images are compared label by label: a step that was skipped in one universe (its reference scan did
            # not survive there) must not look like a different image
            i0, i1 = r0.get("imgs") or {}, r1.get("imgs") or {}
            if any(i0[l] != i1[l] for l in i0 if l in i1):
                diffs.append("obs_img")
            if not diffs:
                continue
            kind = dict_kind_of(r0)
            for k in diffs:
                cls = None
                if k == "obs_img" and (prop == "C08" or c07):
                    cls = "image_depends_on_heap_garbage"
                elif k == "obs_lans" and "obs_bans" not in diffs and (prop == "C06" or c07):
                    cls = "loaded_state_depends_on_heap_garbage"
                elif k in ("obs_ans", "obs_bans", "obs_lans") and c07:
                    cls = "answers_depend_on_heap_garbage"
                if cls is None:
                    agg["other"]["universe_difference:%s" % k] += 1
                    continue
                d = {"class": cls, "dict_kind": kind, "harness": "history", "mode": mode, "phase": "var", "step": "universe-compare", "universes": [0, u]}
                candidates.setdefault("%s|%s|" % (cls, kind), []).append((0, r0, d))

    if os.environ.get("VERIF_TRIAGE"):
        for key, lst in sorted(candidates.items(), key=lambda kv: -len(kv[1])):
            u, rec, d = lst[0]
            print("TRIAGE %5d  %s  alloc=%s step=%s run=%s" % (len(lst), key, d.get("alloc_repo_function"), d.get("step"), rec["run"]))
        for k, n in agg["precondition_failed"].most_common(60):
            print("TRIAGE-PRE %5d %s" % (n, k))
        for k, n in agg["other"].most_common(60):
            print("TRIAGE-OTHER %5d %s" % (n, k))
    # ---- candidates: known findings, gate, replay files ----
    exit_code = 0
    violations, known_hit, unrepro = [], [], []
    handled = 0
    for key, lst in candidates.items():
        u, rec, d = lst[0]
        k = match_known(prop, d)
        if k:
            tag = (k.get("class"), k.get("what"))
            if tag not in known_hit:
                known_hit.append(tag)
                print("KNOWN-FINDING: property=%s %s" % (prop, k.get("what", d["class"])))
            continue
        handled += 1
        if handled > 6:
            continue
        ok, replay = gate(hr, prop, mode, u, rec, d, seed)
        if not ok and d.get("step") != "universe-compare":
            # other members of the class may reproduce on their own where the first one needs the worker's past
            for u2, rec2, d2 in lst[1:3]:
                ok, replay = gate(hr, prop, mode, u2, rec2, d2, seed)
                if ok:
                    u, rec, d = u2, rec2, d2
                    break
        if not ok and d.get("step") == "universe-compare":
            # garbage-dependence that does not recur in a fresh process pair (a wild read that picked up
            # process-specific bytes): recorded, not reported -- neither a violation nor an infrastructure error
            agg["other"]["unstable_universe_difference:%s[%s]" % (d["class"], d["dict_kind"])] += 1
            handled -= 1
            continue
        if not ok and rec.get("verdict") in ("died", "violation") and rec.get("proc_first") is not None and rec["proc_first"] < rec["run"]:
            # the death (or the wrong answer: state the library keeps across objects, C14) may depend on what the same
            # worker process executed before: replay the process from its first history on, in the same universe;
            # still one seed, one exact execution
            ok, replay = gate_prefix(hr, prop, mode, u, rec, d, seed)
        if not ok:
            unrepro.append({"run": rec["run"], "class": d["class"], "kind": d["dict_kind"], "step": d.get("step"), "universe": u, "process_first_run": rec.get("proc_first"),
                            "stderr_excerpt": S.symbolize_report(rec.get("stderr") or "")[-2500:]})
            print("UNREPRODUCIBLE property=%s run=%s class=%s kind=%s" % (prop, rec["run"], d["class"], d["dict_kind"]))
            exit_code = 2
            continue
        path = write_replay(prop, "history-%s-%s" % (mode, rec["run"]), replay)
        print("VIOLATION property=%s replay=%s" % (prop, path))
        print("  class=%s kind=%s step=%s occurrences=%d detail=%s" % (d["class"], d["dict_kind"], d.get("step"), len(lst), (rec.get("detail") or d.get("first_repo_function") or "")[:300]))
        violations.append({"class": d["class"], "kind": d["dict_kind"], "replay": path, "occurrences": len(lst)})
        exit_code = 1
    extra_classes = max(0, handled - 6)

    # ---- determinism sample: the same shard in fresh processes, side by side; every record and the sequence of
    # all (size, address) pairs the worker process allocates must be identical (DESIGN 11.13)
    det = determinism_sample(hr, mode, seed, 3 if tier == "quick" else 6, 40 if tier == "quick" else 120)
    if not det.get("matched", True):
        print("DETERMINISM-MISMATCH property=%s (recorded in the evidence; no verdict depends on it)" % prop)

    # ---- samples ----
    samples = []
    for run in sorted(hr.recs[0].keys())[:40]:
        rec = hr.recs[0][run]
        if rec["verdict"] == "ok" and len(samples) < 4:
            samples.append({"run": run, "run_seed": rec.get("seed"), "mode": rec.get("mode"), "history": rec.get("spec"), "kinds": rec.get("kinds"), "shape": rec.get("shape"),
                            "observables": {"images": rec.get("n_img"), "answers": rec.get("n_ans"), "obs_img": rec.get("obs_img"), "obs_ans": rec.get("obs_ans")}, "stats": rec.get("stats"), "verdict": "ok"})
    if not samples:
        for run in sorted(hr.recs[0].keys())[:2]:
            rec = hr.recs[0][run]
            samples.append({"run": run, "verdict": rec["verdict"], "class": rec.get("class"), "history": rec.get("spec")})
    wall = time.time() - t0
    cov = {
        "evaluations": max(1, evaluations),
        "distinct_nontrivial": len(nontrivial),
        "rule": "one evaluation = one seeded history executed in one heap universe (same history in every universe); non-trivial = completed with verdict ok "
                "and at least one lineage op / client call; distinct = distinct (kinds, history shape, observable digests) signature",
        "samples": samples,
        "runs_per_hour": int(evaluations / max(wall, 1e-6) * 3600),
        "seeds": {"base": seed, "first_index": 0, "count": runs, "universes": [list(x) for x in UNIVERSES[:nuni]]},
        "catalogue_sets": cat,
        "verdicts": dict(agg["verdicts"]),
        "kinds": dict(agg["kinds"]),
        "faults_and_probes": dict(agg["stats"]),
        "universe_pairs_compared": agg["universe_pairs_compared"],
        "precondition_failed": dict(agg["precondition_failed"].most_common(40)),
        "symmetric_failures_isolated_calls": agg.get("symmetric_failures", 0),
        "functions_failing_symmetrically": {"%s [%s %s]" % k: v for k, v in sym_functions.most_common(30)},
        "events_attributed_to_other_properties": dict(agg["other"]),
        "known_findings_hit": [list(x) for x in known_hit],
        "violation_classes": violations,
        "violation_classes_not_gated": extra_classes,
        "unreproducible": unrepro,
        "supervisor": hr.sup,
        "determinism_sample": det,
        "real_vs_stub": {"real": ["every /repo translation unit (ASan + bounds/return/unreachable), all 13 kinds, their save/load code and libcds loaders", "std::istream/std::ostream front ends"],
                         "simulated": ["the stream buffer behind every save/load (simdisk: seeded chunking, exact consumption accounting, poisoned tail, multi-image files, tag corruption, misdirected images)",
                                       "heap contents of fresh and freed memory (heap universes)", "order of API calls and client interleaving (simclients)", "restart (only saved images survive)", "MEMALLOC knob"]},
        "design_ref": design_ref,
    }
    if cov["distinct_nontrivial"] < 2:
        cov["distinct_nontrivial_note"] = "fewer than 2 histories completed; counting attempted runs"
        cov["distinct_nontrivial"] = 2
    if level == "fault_enumeration":
        lap = 2 * (13 * 5 * 18 + 13 * 12 * 3)
        done = min(len(hr.recs[u]) for u in range(nuni))
        cov["enumeration"] = {"index_space_per_lap": lap, "part_A_tag_corruption_runs_per_lap": 13 * 5 * 18, "part_B_misdirected_runs_per_lap": 13 * 12 * 3,
                              "part_C_unsupported_histories_per_lap": lap // 2, "laps_completed_in_every_universe": done // lap,
                              "tag_values_loaded": agg["stats"].get("tag_corruptions", 0), "misdirected_loads": agg["stats"].get("misdirected_images", 0),
                              "unsupported_calls_issued": agg["stats"].get("unsupported_calls", 0)}
        cov["exhaustive"] = False
        cov["exhaustive_note"] = "tags 0..1023, known-tag neighbours and the loader x image matrix are enumerated completely once per lap; the 32-bit tag sample and the histories are seeded"
    if extra_cov:
        cov["thread_slice"] = extra_cov
        cov["evaluations"] += extra_cov.get("evaluations", 0)
        if extra_exit == 1:
            exit_code = 1
        elif extra_exit == 2 and exit_code == 0:
            exit_code = 2
    write_evidence(prop, tier, seed, level, cov, wall, len(violations) + len((extra_cov or {}).get("violation_classes", [])), assumptions)
    print("%s %s: %d simulated histories x universes, %d distinct non-trivial, %d ok, %d died, %d precondition_failed, %d violation class(es), %d known, %.1fs" %
          (prop, tier, evaluations, len(nontrivial), agg["verdicts"]["ok"], agg["verdicts"]["died"], sum(agg["precondition_failed"].values()), len(violations), len(known_hit), wall))
    return exit_code


def determinism_sample(hr, mode, seed, procs, count):
    """`procs` fresh worker processes execute the same `count` histories concurrently (so that pids, pipe timing and
    CPU contention differ); compared: every JSON record, and per history a hash over every allocation (size, address)
    the worker made -- the worker process, heap layout included, has to be a function of the seed."""
    import threading
    first = max(0, hr.runs // 2)
    outs = [None] * procs

    def go(i):
        env = dict(os.environ)
        env.update(universe_env(0))
        env["VERIF_LAYOUT"] = "2"
        env["VERIF_LAYOUT_FROM"] = "999999999"
        try:
            with open(os.devnull, "w") as dn:
                r = subprocess.run(argv_run(hr.exe, mode, seed, first, count, hr.cat, hr.extra), stdout=subprocess.PIPE, stderr=subprocess.PIPE,
                                   env=env, text=True, errors="replace", timeout=900, pass_fds=())
            recs = [l for l in r.stdout.splitlines() if l.startswith('{"run"')]
            mh = [l for l in r.stderr.splitlines() if l.startswith("MHASH ")]
            outs[i] = (r.returncode, recs, mh)
        except Exception as e:  # noqa
            outs[i] = ("error: %s" % e, [], [])
    ths = [threading.Thread(target=go, args=(i,)) for i in range(procs)]
    for t in ths:
        t.start()
    for t in ths:
        t.join()
    base = outs[0]
    rec_ok = all(o[1] == base[1] and o[0] == base[0] for o in outs)
    mh_ok = all(o[2] == base[2] for o in outs)
    return {"processes": procs, "first_history": first, "histories_per_process": len(base[2]), "records_compared": len(base[1]),
            "records_identical": rec_ok, "allocation_sequences_identical": mh_ok, "matched": bool(rec_ok and mh_ok),
            "measure": "per history one 64-bit hash over every (size, address) the worker process allocated since its start"}


def gate(hr, prop, mode, u, rec, d, seed):
    """same seed, same universe, fresh process: the class must recur; then a replay file."""
    envs = universe_env(u)
    extra = hr.extra
    rc, recs, out, err = S.run_one(argv_one(hr.exe, mode, seed, rec["run"], hr.cat, extra), env=envs, timeout=180)
    cls2, desc2 = outcome(rc, recs, err)
    replay = {"property": prop, "harness": "history_sim", "variant": "asan", "mode": mode, "base_seed": seed, "run": rec["run"], "catalogue": hr.cat, "extra": extra,
              "universe": {"index": u, "malloc_fill": UNIVERSES[u][0], "free_fill": UNIVERSES[u][1]},
              "expect": {"class": d["class"], "kind": d["dict_kind"], "step": d.get("step")},
              "history": rec.get("spec"), "detail": rec.get("detail"), "stderr_excerpt": (err or "")[:2500]}
    if d["step"] == "universe-compare":
        # re-run both universes and diff the observables: the first differing observable is the report
        u2 = d["universes"][1]
        rc2, recs2, out2, err2 = S.run_one(argv_one(hr.exe, mode, seed, rec["run"], hr.cat, extra), env=universe_env(u2), timeout=180)
        o1 = [l for l in out.splitlines() if l.startswith("  obs ")]
        o2 = [l for l in out2.splitlines() if l.startswith("  obs ")]
        if d["class"] == "image_depends_on_heap_garbage":
            m1 = dict(l.split()[1:3] for l in o1 if l.split()[1].startswith("img:"))
            m2 = dict(l.split()[1:3] for l in o2 if l.split()[1].startswith("img:"))
            diff = [("  obs %s %s" % (k, m1[k]), "  obs %s %s" % (k, m2[k])) for k in m1 if k in m2 and m1[k] != m2[k]]
            if not diff:
                return False, None
        else:
            diff = [(a, b) for a, b in zip(o1, o2) if a != b]
            if not diff and len(o1) == len(o2):
                return False, None
        replay["first_differing_observable"] = {"universe_%d" % u: diff[0][0].strip() if diff else "", "universe_%d" % u2: diff[0][1].strip() if diff else "", "differing": len(diff)}
        replay["universe_b"] = {"index": u2, "malloc_fill": UNIVERSES[u2][0], "free_fill": UNIVERSES[u2][1]}
        return True, replay
    if d.get("step") == "isolated-reference-call":
        # symmetric failure (C07): the same class must show up again among the isolated reference calls
        for r in recs:
            for sf in r.get("sym") or []:
                dd = death_desc({"stderr": sf.get("report") or "", "exit": 77}) if not (sf.get("report") or "").startswith(("HANG", "UNSTABLE")) else {"class": "hang" if (sf.get("report") or "").startswith("HANG") else "unstable_answer"}
                if dd["class"] == d["class"]:
                    replay["failing_call"] = sf.get("what")
                    replay["stderr_excerpt"] = S.symbolize_report(sf.get("report") or "")[:2500]
                    return True, replay
        return False, None
    if cls2 != d["class"]:
        return False, None
    # minimise the explicit history where the harness can replay one
    full = None
    for r in recs:
        if "run" in r and r.get("spec"):
            full = r["spec"]
        if "partial" in r and r.get("spec"):
            full = full or r["spec"]
    if full:
        ms, n = minimise_history(hr, mode, u, full, d["class"])
        if ms:
            rc3, recs3, out3, err3 = S.run_one([hr.exe, "replay", ms], env=envs, timeout=180)
            c3, _ = outcome(rc3, recs3, err3)
            if c3 == d["class"]:
                replay["minimised_history"] = ms
                replay["minimiser_replays"] = n
                replay["minimised_from"] = full[:2000]
    return True, replay


def _prefix_outcome(rc, recs, out, err, run):
    """class of the death of a worker process, provided it died while `run` was in flight"""
    last_begin = None
    done = set()
    for line in out.splitlines():
        line = line.strip()
        if line.startswith('{"begin"'):
            try:
                last_begin = json.loads(line)["begin"]
            except ValueError:
                pass
    for r in recs:
        if "run" in r and "verdict" in r:
            done.add(r["run"])
    for r in recs:
        if r.get("run") == run and r.get("verdict") == "violation":
            return r.get("class")
    if rc == 0 or last_begin != run or run in done:
        return None
    return death_desc({"stderr": S._clip(err), "exit": rc})["class"]


def gate_prefix(hr, prop, mode, u, rec, d, seed):
    first, count = rec["proc_first"], rec["run"] - rec["proc_first"] + 1
    rc, recs, out, err = S.run_one(argv_run(hr.exe, mode, seed, first, count, hr.cat, hr.extra), env=universe_env(u), timeout=2400)
    cls = _prefix_outcome(rc, recs, out, err, rec["run"])
    if cls != d["class"]:
        return False, None
    replay = {"property": prop, "harness": "history_sim", "variant": "asan", "mode": mode, "base_seed": seed, "run": rec["run"], "catalogue": hr.cat, "extra": hr.extra,
              "process_prefix": {"first": first, "count": count},
              "universe": {"index": u, "malloc_fill": UNIVERSES[u][0], "free_fill": UNIVERSES[u][1]},
              "expect": {"class": d["class"], "kind": d["dict_kind"], "step": d.get("step")},
              "history": rec.get("spec"), "detail": "recurs only when the worker process first executes histories %d..%d (state of the process: heap layout, or what the library keeps across objects); %s" % (first, rec["run"] - 1, (rec.get("detail") or "")[:300]),
              "stderr_excerpt": S.symbolize_report(S._clip(err))[-2500:]}
    return True, replay


def _bar(spec):
    d = collections.OrderedDict()
    for kv in spec.split("|"):
        if "=" in kv:
            k, v = kv.split("=", 1)
            d[k] = v
    return d


def _unbar(d):
    return "|".join("%s=%s" % kv for kv in d.items())


def minimise_history(hr, mode, u, spec, cls, budget_s=60):
    """ddmin-style shrinking of an explicit history: C14-type plans (drop clients, drop calls, keeping
    the interleaving consistent) and C08 op strings.  Returns (min_spec, replays) or (None, n)."""
    t0 = time.time()
    tries = [0]
    env = universe_env(u)

    def fails(sp):
        tries[0] += 1
        rc, recs, out, err = S.run_one([hr.exe, "replay", sp], env=env, timeout=120)
        c, _ = outcome(rc, recs, err)
        return c == cls

    d = _bar(spec)
    if "order" in d:
        if not fails(_unbar(d)):
            return None, tries[0]
        k = int(d["clients"])
        scripts = [d.get("s%d" % c, "").split(";") if d.get("s%d" % c) else [] for c in range(k)]
        order = [int(x) for x in d["order"].split(".") if x != ""]

        def build(scripts, order):
            dd = collections.OrderedDict((a, b) for a, b in d.items() if not re.fullmatch(r"s\d+", a))
            for c in range(k):
                dd["s%d" % c] = ";".join(scripts[c])
            dd["order"] = ".".join(str(x) for x in order)
            return _unbar(dd)

        # drop whole clients' scripts
        for c in range(k):
            if time.time() - t0 > budget_s or not scripts[c]:
                continue
            sc = [list(x) for x in scripts]
            sc[c] = []
            od = [x for x in order if x != c]
            if fails(build(sc, od)):
                scripts, order = sc, od
        # drop single calls, last to first
        for c in range(k):
            j = len(scripts[c]) - 1
            while j >= 0 and time.time() - t0 < budget_s:
                sc = [list(x) for x in scripts]
                del sc[c][j]
                # remove the j-th occurrence of c from the interleaving
                od, seen = [], 0
                for x in order:
                    if x == c:
                        if seen == j:
                            seen += 1
                            continue
                        seen += 1
                    od.append(x)
                if fails(build(sc, od)):
                    scripts, order = sc, od
                j -= 1
        return build(scripts, order), tries[0]
    if mode == "C08" and "ops" in d and "triple" in d:
        base = collections.OrderedDict((a, b) for a, b in d.items() if a in ("mode", "run", "runseed", "cat"))
        kind = d["triple"].split("/")[0]
        base["forcekind"] = kind
        ops = d["ops"]

        def sp(o):
            dd = collections.OrderedDict(base)
            dd["ops"] = o if o else "S"
            return _unbar(dd)
        if not fails(sp(ops)):
            return None, tries[0]
        i = len(ops) - 1
        while i >= 0 and len(ops) > 1 and time.time() - t0 < budget_s:
            cand = ops[:i] + ops[i + 1:]
            if cand and fails(sp(cand)):
                ops = cand
            i -= 1
        return sp(ops), tries[0]
    return None, tries[0]


def outcome(rc, recs, err):
    rec = None
    for r in recs:
        if "run" in r and "verdict" in r:
            rec = r
    if rec is not None and rec["verdict"] == "violation":
        return rec["class"], rec
    if rec is not None and rec["verdict"] in ("ok", "precondition_failed"):
        return rec["verdict"], rec
    dd = death_desc({"stderr": err, "exit": rc})
    return dd["class"], dd


def replay_file(path):
    rp = json.load(open(path))
    exe = B.build("asan", "history_sim")
    u = rp["universe"]["index"]
    if rp.get("process_prefix"):
        pp = rp["process_prefix"]
        rc, recs, out, err = S.run_one(argv_run(exe, rp["mode"], rp["base_seed"], pp["first"], pp["count"], rp["catalogue"], rp.get("extra", "")), env=universe_env(u), timeout=2400)
        cls = _prefix_outcome(rc, recs, out, err, rp["run"]) or "process survived"
        same = cls == rp["expect"]["class"]
        sys.stderr.write(S._clip(err)[-5000:])
        print("replay: observed=%s expected=%s -> %s" % (cls, rp["expect"]["class"], "REPRODUCED" if same else "not reproduced"))
        if same:
            print("VIOLATION property=%s replay=%s" % (rp["property"], path))
        return 1 if same else 0
    if rp.get("minimised_history"):
        rc, recs, out, err = S.run_one([exe, "replay", rp["minimised_history"]], env=universe_env(u), timeout=600)
    else:
        rc, recs, out, err = S.run_one(argv_one(exe, rp["mode"], rp["base_seed"], rp["run"], rp["catalogue"], rp.get("extra", "")), env=universe_env(u), timeout=600)
    sys.stdout.write(out[-6000:])
    if err:
        sys.stderr.write(err[:5000])
    cls, _ = outcome(rc, recs, err)
    exp = rp["expect"]["class"]
    same = cls == exp
    if rp["expect"].get("step") == "isolated-reference-call":
        for r in recs:
            for sf in r.get("sym") or []:
                dd = death_desc({"stderr": sf.get("report") or "", "exit": 77}) if not (sf.get("report") or "").startswith("HANG") else {"class": "hang"}
                if dd["class"] == exp:
                    same, cls = True, dd["class"]
    if rp["expect"].get("step") == "universe-compare":
        u2 = rp["universe_b"]["index"]
        rc2, recs2, out2, err2 = S.run_one(argv_one(exe, rp["mode"], rp["base_seed"], rp["run"], rp["catalogue"], rp.get("extra", "")), env=universe_env(u2), timeout=600)
        o1 = [l for l in out.splitlines() if l.startswith("  obs ")]
        o2 = [l for l in out2.splitlines() if l.startswith("  obs ")]
        if exp == "image_depends_on_heap_garbage":
            m1 = dict(l.split()[1:3] for l in o1 if l.split()[1].startswith("img:"))
            m2 = dict(l.split()[1:3] for l in o2 if l.split()[1].startswith("img:"))
            same = any(m1[k] != m2[k] for k in m1 if k in m2)
        else:
            same = o1 != o2
        cls = "universe observables %s" % ("differ" if same else "agree")
    print("replay: observed=%s expected=%s -> %s" % (cls, exp, "REPRODUCED" if same else "not reproduced"))
    if same:
        print("VIOLATION property=%s replay=%s" % (rp["property"], path))
    return 1 if same else 0
