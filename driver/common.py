"""Shared pieces of the check driver: evidence files, known findings, replay files, spec strings."""
import json
import os
import re
import time

VERIF = os.path.dirname(os.path.dirname(os.path.abspath(__file__)))
EVIDENCE_DIR = os.environ.get("VERIF_EVIDENCE_DIR") or os.path.join(VERIF, "evidence")
REPLAY_DIR = os.environ.get("VERIF_REPLAY_DIR") or os.path.join(VERIF, "replays")
KNOWN_PATH = os.path.join(VERIF, "known_findings.json")

DEFAULT_SEED = {"quick": 20261003, "thorough": 20261004}


def base_seed(tier):
    v = os.environ.get("VERIF_SEED")
    if v:
        try:
            return int(v, 0) & 0xFFFFFFFFFFFFFFFF
        except ValueError:
            pass
    return DEFAULT_SEED[tier]


def parse_spec(s):
    out = {}
    for kv in s.split(","):
        if "=" in kv:
            k, v = kv.split("=", 1)
            out[k] = v
    return out


def spec_str(d, order=None):
    keys = order or list(d.keys())
    return ",".join("%s=%s" % (k, d[k]) for k in keys if k in d)


def load_known():
    try:
        return json.load(open(KNOWN_PATH))
    except (OSError, ValueError):
        return []


def match_known(prop, desc):
    """desc: dict of strings describing a candidate (class, harness, kind, first_repo_function, ...).
    A known entry matches when every key of its 'match' is a regex that fully matches desc[key]."""
    for e in load_known():
        if e.get("property") != prop or e.get("status") != "known":
            continue
        ok = True
        for k, rx in e.get("match", {}).items():
            v = desc.get(k)
            if v is None or not re.fullmatch(rx, str(v)):
                ok = False
                break
        if ok:
            return e
    return None


def write_replay(prop, name, obj):
    os.makedirs(REPLAY_DIR, exist_ok=True)
    p = os.path.join(REPLAY_DIR, "%s-%s.json" % (prop, name))
    json.dump(obj, open(p, "w"), indent=1)
    return p


def write_evidence(prop, tier, seed, level, coverage, wall_s, violations, assumptions):
    os.makedirs(EVIDENCE_DIR, exist_ok=True)
    ev = {"property_id": prop, "tier": tier, "seed": int(seed), "level": level, "coverage": coverage,
          "assumptions": assumptions, "wall_s": round(wall_s, 2), "violations": int(violations)}
    # minimal self-validation of what the schema requires for exploration-style levels
    cov = coverage
    assert isinstance(cov.get("evaluations"), int) and cov["evaluations"] >= 1, "evaluations"
    assert isinstance(cov.get("distinct_nontrivial"), int) and cov["distinct_nontrivial"] >= 2, "distinct_nontrivial"
    assert isinstance(cov.get("rule"), str)
    assert isinstance(cov.get("samples"), list) and len(cov["samples"]) >= 1, "samples"
    p = os.path.join(EVIDENCE_DIR, "%s.json" % prop)
    tmp = p + ".tmp%d" % os.getpid()
    json.dump(ev, open(tmp, "w"), indent=1)
    os.replace(tmp, p)
    return p


class Budget:
    def __init__(self, seconds):
        self.t0 = time.time()
        self.seconds = seconds

    def left(self):
        return self.seconds - (time.time() - self.t0)

    def elapsed(self):
        return time.time() - self.t0

    def deadline(self, frac=1.0):
        return self.t0 + self.seconds * frac
