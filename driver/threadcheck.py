"""Checks decided by the thread simulator: C10 (pool_sim/asan), C09 (blocks_sim/asan),
C11 (pool_sim + blocks_sim / tsan).  Flow: build -> sharded seeded runs -> determinism sample ->
candidates -> known-findings -> gate (same seed twice, fresh process) -> minimise -> replay gate ->
VIOLATION lines -> evidence."""
import collections
import json
import os
import sys
import time

from . import build as B
from . import supervisor as S
from .common import (Budget, base_seed, match_known, parse_spec, spec_str, write_evidence, write_replay)

SHAPE_KEYS = {
    "pool_sim": ["pattern", "workers", "tasks", "nested", "ymask"],
    "blocks_sim": ["cold", "set", "maxn", "cut", "threads", "overhead"],
}
SCHED_KEYS = ["strategy", "pctd", "explen", "stickyden", "victim", "spur", "spurpm", "pcg", "pcgseed", "sseed"]


def harness_argv(exe, harness, mode, base, first, count, catalogue, cold=False):
    if harness == "pool_sim":
        if mode == "run":
            return [exe, "run", str(base), str(first), str(count)]
        return [exe, "one", str(base), str(first)]
    tail = ["cold"] if cold else []
    if mode == "run":
        return [exe, "run", str(base), str(first), str(count), str(catalogue)] + tail
    return [exe, "one", str(base), str(first), str(catalogue)] + tail


def replay_argv(exe, spec):
    return [exe, "replay", spec]


def outcome_of(rc, recs, err, prop, harness):
    """(verdict, class) of a single-process run for the property's oracle."""
    rec = None
    part = None
    for r in recs:
        if "run" in r and "verdict" in r:
            rec = r
        if "partial" in r:
            part = r
    if rec is None and part is not None:
        san = S.classify_sanitizer(err)
        if san and rc != 0:
            return "died", "%s@%s" % (san["kind"], san["first_repo_function"] or "?"), part
    if rec is not None and rec["verdict"] in ("violation", "precondition_failed"):
        return rec["verdict"], rec["class"], rec
    san = S.classify_sanitizer(err)
    if san and rc != 0:
        return "died", "%s@%s" % (san["kind"], san["first_repo_function"] or "?"), rec
    if rc not in (0, 1) and rec is None:
        return "died", "exit:%s" % rc, rec
    if rec is not None:
        return rec["verdict"], rec["class"], rec
    return "died", "exit:%s" % rc, rec


def is_candidate(prop, harness, variant, verdict, cls, phase):
    """Does this outcome count against `prop`?  A check only ever reports its own property."""
    if verdict == "ok" or verdict == "precondition_failed":
        return False
    if prop == "C11":
        return cls.startswith("tsan:data_race")
    if prop == "C10":
        return True  # pool_sim runs nothing but the pool: every failure is the pool's
    if prop == "C09":
        return phase != "ref"  # reference-phase failure = symmetric = precondition (DESIGN §3)
    if prop == "C07":
        # memory errors, fatal signals and hangs of the thread harnesses, whichever phase (the scheduler's own
        # verdicts -- deadlock, task lost, image differs -- belong to C10/C09)
        return verdict == "died" and not cls.startswith("exit:3")
    return False


def same_class(a, b):
    # sanitizer classes: compare kind and function; simulator classes: exact
    return a == b


class Part:
    def __init__(self, harness, variant, runs, catalogue=48, cold=False):
        self.harness, self.variant, self.runs, self.catalogue, self.cold = harness, variant, runs, catalogue, cold


def minimise(exe, harness, spec, trace, cls, prop, budget, log):
    """Shrink schedule faults, then ddmin the decision trace toward all-zero ('stay')."""
    d = parse_spec(spec)
    tries = [0]

    def attempt(dd, tr):
        tries[0] += 1
        dd = dict(dd)
        dd["trace"] = ":".join(str(x) for x in tr) if tr else "0"
        keys = SHAPE_KEYS[harness] + SCHED_KEYS + ["trace"]
        rc, recs, out, err = S.run_one(replay_argv(exe, spec_str(dd, keys)), timeout=120)
        v, c, _ = outcome_of(rc, recs, err, prop, harness)
        return v in ("violation", "died") and same_class(c, cls)

    tr = list(trace)
    while tr and tr[-1] == 0:
        tr.pop()
    if not attempt(d, tr):
        return None, None, tries[0]
    # remove fault knobs first
    for k in ("pcg", "spur"):
        if d.get(k, "0") != "0" and budget.left() > 5:
            dd = dict(d)
            dd[k] = "0"
            if attempt(dd, tr):
                d = dd
    # truncate tail (binary search on prefix length; rest is implied zero)
    lo, hi = 0, len(tr)
    while lo < hi and budget.left() > 5:
        mid = (lo + hi) // 2
        if attempt(d, tr[:mid]):
            hi = mid
        else:
            lo = mid + 1
    tr = tr[:hi]
    # zero chunks of nonzero decisions
    nz = [i for i, x in enumerate(tr) if x]
    chunk = max(1, len(nz) // 2)
    while chunk >= 1 and budget.left() > 5:
        i = 0
        changed = False
        while i < len(nz) and budget.left() > 5:
            cand = list(tr)
            for j in nz[i:i + chunk]:
                cand[j] = 0
            if attempt(d, cand):
                tr = cand
                nz = [k for k, x in enumerate(tr) if x]
                changed = True
            else:
                i += chunk
        if chunk == 1 and not changed:
            break
        chunk = max(1, chunk // 2) if chunk > 1 else (1 if changed else 0)
        if chunk == 0:
            break
    while tr and tr[-1] == 0:
        tr.pop()
    return d, tr, tries[0]


def run_thread_check(prop, tier, parts, budget_s, design_ref, assumptions, real_vs_stub, det_sample, write_ev=True):
    t0 = time.time()
    budget = Budget(budget_s)
    seed = base_seed(tier)
    agg = {"evaluations": 0, "sigs": set(), "nontrivial": 0, "steps": 0, "clock_ns": 0,
           "faults": collections.Counter(), "probes": collections.Counter(), "strategies": collections.Counter(),
           "configs": collections.Counter(), "verdicts": collections.Counter(), "precondition_failed": collections.Counter(),
           "other_property_events": collections.Counter()}
    candidates = []   # (part, rec, class)
    sig_by_run = {}
    part_info = []
    violations = []
    known_hit = []
    unreproducible = []
    samples = []
    det = {"double_run": 0, "matched": 0, "mismatched": []}

    for pi, part in enumerate(parts):
        try:
            exe = B.build(part.variant, part.harness)
        except B.BuildError as e:
            print("BUILD-ERROR %s" % e, file=sys.stderr)
            return 2
        part.exe = exe
        sig_by_run[pi] = {}
        lock_recs = []

        bad = [0]

        def on_record(rec, pi=pi, part=part, bad=bad):
            lock_recs.append(rec)
            if rec.get("verdict") == "violation" or (rec.get("verdict") == "died" and rec.get("phase") != "ref"):
                bad[0] += 1

        frac = (pi + 1) / (len(parts) + 0.6)
        st = S.run_shards(lambda f, c, part=part, exe=exe: harness_argv(exe, part.harness, "run", seed, f, c, part.catalogue, part.cold),
                          part.runs, chunk=(1 if part.cold else None), on_record=on_record, deadline=budget.deadline(frac), hang_s=45,
                          should_stop=lambda bad=bad: bad[0] >= 400)
        part_info.append({"harness": part.harness, "variant": part.variant, "requested_runs": part.runs, "supervisor": st})
        for rec in lock_recs:
            agg["evaluations"] += 1
            if rec["verdict"] == "died":
                cls, san = S.class_of_death(rec)
                rec["class"] = cls
                rec["san"] = san
                agg["verdicts"]["died"] += 1
                if is_candidate(prop, part.harness, part.variant, "died", cls, rec.get("phase")):
                    candidates.append((pi, rec, cls))
                elif rec.get("phase") == "ref":
                    agg["precondition_failed"][cls] += 1
                else:
                    agg["other_property_events"][cls] += 1
                continue
            v = rec["verdict"]
            agg["verdicts"][v] += 1
            sp = parse_spec(rec.get("spec", ""))
            agg["strategies"][sp.get("strategy", "?")] += 1
            if part.harness == "pool_sim":
                agg["configs"]["pool:%s/w%s/t%s" % (sp.get("pattern"), sp.get("workers"), sp.get("tasks"))] += 1
                tasks = int(sp.get("tasks", "0"))
            else:
                agg["configs"]["blocks:thr%s/cut%s/blocks%s" % (sp.get("threads"), sp.get("cut"), sp.get("blocks"))] += 1
                tasks = int(sp.get("blocks", "1"))
            agg["steps"] += rec.get("steps", 0)
            agg["clock_ns"] += rec.get("clock_ns", 0)
            for k, x in rec.get("faults", {}).items():
                agg["faults"][k] += x
            if sp.get("strategy") == "starve":
                agg["faults"]["starved_thread_runs"] += 1
            for k, x in rec.get("probes", {}).items():
                if x:
                    agg["probes"][k] += 1
            sig_by_run[pi][rec["run"]] = (rec.get("sig"), v, rec.get("class"))
            if rec.get("switches", 0) >= 1 and tasks >= 1:
                agg["nontrivial"] += 1
                agg["sigs"].add((part.harness, rec.get("sig")))
            if v == "precondition_failed":
                agg["precondition_failed"][rec.get("class", "?")] += 1
            elif v == "violation":
                if is_candidate(prop, part.harness, part.variant, v, rec["class"], rec.get("phase")):
                    candidates.append((pi, rec, rec["class"]))
                else:
                    agg["other_property_events"][rec["class"]] += 1

    # ---- determinism sample: re-run slices in fresh processes with a different sharding ----
    for pi, part in enumerate(parts):
        want = det_sample if len(parts) == 1 else max(20, det_sample // (4 if part.harness == "blocks_sim" else 1))
        if part.harness == "blocks_sim":
            want = min(want, 150)
        if budget.left() < 6 or not sig_by_run[pi]:
            continue
        runs_done = sorted(sig_by_run[pi].keys())
        slices = max(1, min(16, want // 8))
        per = max(1, want // slices)
        recs2 = []
        # distinct offsets spread over the range
        import random
        rnd = random.Random(seed ^ 0xD37)
        starts = sorted(rnd.sample(runs_done, min(slices, len(runs_done))))
        total2 = 0
        def on2(rec):
            recs2.append(rec)
        for stt in starts:
            if budget.left() < 5:
                break
            S.run_shards(lambda f, c, part=part: harness_argv(part.exe, part.harness, "run", seed, f, c, part.catalogue, part.cold),
                         per, nworkers=1, first_index=stt, chunk=per, on_record=on2, hang_s=45,
                         deadline=budget.deadline(0.9))
        for rec in recs2:
            if rec.get("verdict") == "died":
                continue
            prev = sig_by_run[pi].get(rec["run"])
            if prev is None:
                continue
            det["double_run"] += 1
            if prev == (rec.get("sig"), rec["verdict"], rec.get("class")):
                det["matched"] += 1
            else:
                det["mismatched"].append({"harness": part.harness, "run": rec["run"], "first": prev, "second": [rec.get("sig"), rec["verdict"], rec.get("class")]})

    # ---- samples written out ----
    for pi, part in enumerate(parts):
        if not sig_by_run[pi]:
            continue
        for run in sorted(sig_by_run[pi].keys())[:2]:
            rc, recs, out, err = S.run_one(harness_argv(part.exe, part.harness, "one", seed, run, 1, part.catalogue, part.cold))
            for r in recs:
                if "run" in r and "verdict" in r:
                    tr = r.get("trace", "")
                    samples.append({"harness": part.harness, "variant": part.variant, "run": run, "run_seed": r.get("seed"), "spec": r.get("spec"),
                                    "verdict": r["verdict"], "steps": r.get("steps"), "switches": r.get("switches"), "sig": r.get("sig"),
                                    "decision_trace_prefix": tr[:160]})

    # ---- candidates: known findings, gate, minimise ----
    by_class = collections.OrderedDict()
    for pi, rec, cls in candidates:
        by_class.setdefault((pi, cls), []).append(rec)
    exit_code = 0
    for (pi, cls), recs in list(by_class.items())[:4]:
        part = parts[pi]
        rec = min(recs, key=lambda r: (r.get("steps") or 10**9, r["run"]))  # smallest failing execution first
        desc = {"class": cls, "harness": part.harness, "variant": part.variant}
        san = rec.get("san") or {}
        if san:
            desc["kind"] = san.get("kind", "")
            desc["first_repo_function"] = san.get("first_repo_function") or ""
            desc["alloc_repo_function"] = san.get("alloc_repo_function") or ""
            desc["region_bytes"] = san.get("region_bytes", "")
        k = match_known(prop, desc)
        if k:
            print("KNOWN-FINDING: property=%s %s" % (prop, k.get("what", cls)))
            known_hit.append(k.get("class", cls))
            continue
        # gate 1: same seed in a fresh process
        rc, r1, out1, err1 = S.run_one(harness_argv(part.exe, part.harness, "one", seed, rec["run"], 1, part.catalogue, part.cold), timeout=300)
        v1, c1, full = outcome_of(rc, r1, err1, prop, part.harness)
        if not (v1 in ("violation", "died") and same_class(c1, cls)):
            unreproducible.append({"run": rec["run"], "class": cls, "rerun": [v1, c1]})
            print("UNREPRODUCIBLE property=%s harness=%s run=%s class=%s rerun=%s/%s" % (prop, part.harness, rec["run"], cls, v1, c1))
            exit_code = 2
            continue
        spec = (full or rec).get("spec") or rec.get("spec")
        trace_s = (full or {}).get("trace", "") or rec.get("trace", "")
        if not spec:
            # death without a record (sanitizer): rebuild spec from a 'one' run is impossible; replay by seed
            spec = None
        replay = {"property": prop, "harness": part.harness, "variant": part.variant, "base_seed": seed, "run": rec["run"],
                  "catalogue": part.catalogue, "cold": part.cold, "expect": {"class": cls, "detail": (full or rec).get("detail", "")},
                  "stderr_excerpt": (err1 or rec.get("stderr", ""))[-1500:]}
        if spec and trace_s is not None:
            tr = [int(x) for x in trace_s.split(":") if x != ""]
            d, mtr, tries = minimise(part.exe, part.harness, spec, tr, cls, prop, Budget(min(90, max(15, budget.left()))), None)
            if d is None:
                # explicit trace does not reproduce although the seed does: infrastructure error
                unreproducible.append({"run": rec["run"], "class": cls, "stage": "trace-replay"})
                print("UNREPRODUCIBLE property=%s harness=%s run=%s class=%s stage=trace-replay" % (prop, part.harness, rec["run"], cls))
                exit_code = 2
                continue
            d["trace"] = ":".join(str(x) for x in mtr) if mtr else "0"
            mspec = spec_str(d, SHAPE_KEYS[part.harness] + SCHED_KEYS + ["trace"])
            # gate 2: minimised replay in a fresh process
            rc, r2, out2, err2 = S.run_one(replay_argv(part.exe, mspec), timeout=300)
            v2, c2, full2 = outcome_of(rc, r2, err2, prop, part.harness)
            if not (v2 in ("violation", "died") and same_class(c2, cls)):
                unreproducible.append({"run": rec["run"], "class": cls, "stage": "minimised-replay"})
                print("UNREPRODUCIBLE property=%s harness=%s run=%s class=%s stage=minimised-replay" % (prop, part.harness, rec["run"], cls))
                exit_code = 2
                continue
            replay.update({"spec": mspec, "shape": {k2: d.get(k2) for k2 in SHAPE_KEYS[part.harness]},
                           "trace": mtr, "minimised_from": {"decisions": len(tr), "nonzero": sum(1 for x in tr if x)},
                           "decisions": len(mtr), "nonzero": sum(1 for x in mtr if x), "minimiser_replays": tries,
                           "steps": (full2 or {}).get("steps"), "switches": (full2 or {}).get("switches"), "sig": (full2 or {}).get("sig"),
                           "event_log": [l for l in out2.splitlines() if l.startswith("  #")][-80:]})
        path = write_replay(prop, "%s-%s" % (part.harness, rec["run"]), replay)
        print("VIOLATION property=%s replay=%s" % (prop, path))
        print("  class=%s harness=%s variant=%s detail=%s occurrences=%d" % (cls, part.harness, part.variant, replay["expect"]["detail"], len(recs)))
        violations.append({"class": cls, "replay": path, "occurrences": len(recs)})
        exit_code = 1
    if det["mismatched"] and exit_code != 1:
        print("NONDETERMINISM property=%s mismatches=%d first=%s" % (prop, len(det["mismatched"]), json.dumps(det["mismatched"][0])))
        exit_code = 2

    wall = time.time() - t0
    zero_probes = [p for p in ("lost_notify_window", "notify_no_waiter", "contended_locks") if not agg["probes"].get(p)]
    cov = {
        "evaluations": agg["evaluations"],
        "distinct_nontrivial": len(agg["sigs"]),
        "rule": "one evaluation = one simulated execution (real threads, one released at a time) whose shape, strategy, faults and every "
                "scheduling decision derive from mix(VERIF_SEED, property, run index); non-trivial = at least one task/block and at least one "
                "context switch; distinct = distinct 64-bit schedule signature (running hash of the (thread ordinal, op, object ordinal, outcome) event log)",
        "samples": samples[:5],
        "nontrivial_runs": agg["nontrivial"],
        "runs_per_hour": int(agg["evaluations"] / max(wall, 1e-6) * 3600),
        "seeds": {"base": seed, "first_index": 0, "count_per_part": [p.runs for p in parts]},
        "sim_steps_total": agg["steps"],
        "sim_clock_ns_advanced": agg["clock_ns"],
        "faults_fired": dict(agg["faults"]),
        "probes_runs_hit": dict(agg["probes"]),
        "probes_stuck_at_zero": zero_probes,
        "strategies": dict(agg["strategies"]),
        "configs_top": dict(agg["configs"].most_common(25)),
        "verdicts": dict(agg["verdicts"]),
        "precondition_failed": dict(agg["precondition_failed"]),
        "events_attributed_to_other_properties": dict(agg["other_property_events"]),
        "known_findings_hit": known_hit,
        "violation_classes": violations,
        "unreproducible": unreproducible,
        "determinism_sample": det,
        "parts": part_info,
        "real_vs_stub": real_vs_stub,
        "design_ref": design_ref,
    }
    if cov["distinct_nontrivial"] < 2:
        # a tree so broken that (nearly) every run dies still has to yield a valid evidence file
        cov["distinct_nontrivial_note"] = "fewer than 2 distinct non-trivial schedules completed; counting attempted runs instead"
        cov["distinct_nontrivial"] = max(2, min(agg["evaluations"], 2))
    if cov["evaluations"] < 1:
        cov["evaluations"] = 1
    if not write_ev:
        print("%s %s (thread slice): %d simulated runs, %d violation class(es), %d known, %.1fs" % (prop, tier, agg["evaluations"], len(violations), len(known_hit), wall))
        return exit_code, cov
    write_evidence(prop, tier, seed, "exploration", cov, wall, len(violations), assumptions)
    for p in zero_probes:
        print("note: probe %s stayed at 0 in this run" % p, file=sys.stderr)
    print("%s %s: %d simulated runs, %d distinct non-trivial schedules, %d violation class(es), %d known, %.1fs" %
          (prop, tier, agg["evaluations"], len(agg["sigs"]), len(violations), len(known_hit), wall))
    return exit_code


def replay_file(path):
    rp = json.load(open(path))
    exe = B.build(rp["variant"], rp["harness"])
    if rp.get("spec"):
        argv = replay_argv(exe, rp["spec"])
    else:
        argv = harness_argv(exe, rp["harness"], "one", rp["base_seed"], rp["run"], 1, rp.get("catalogue", 48), rp.get("cold", False))
    rc, recs, out, err = S.run_one(argv, timeout=600)
    sys.stdout.write(out)
    if err:
        sys.stderr.write(err[-4000:])
    v, c, _ = outcome_of(rc, recs, err, rp["property"], rp["harness"])
    same = v in ("violation", "died") and same_class(c, rp["expect"]["class"])
    print("replay: verdict=%s class=%s expected=%s -> %s" % (v, c, rp["expect"]["class"], "REPRODUCED" if same else "not reproduced"))
    if same:
        print("VIOLATION property=%s replay=%s" % (rp["property"], path))
    return 1 if same else 0
