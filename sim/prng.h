// The only randomness in the system: splitmix64 seeding + xoshiro256**.
#pragma once
#include <stdint.h>
struct Prng {
  uint64_t s[4];
  static uint64_t splitmix(uint64_t &x) {
    uint64_t z = (x += 0x9e3779b97f4a7c15ULL);
    z = (z ^ (z >> 30)) * 0xbf58476d1ce4e5b9ULL;
    z = (z ^ (z >> 27)) * 0x94d049bb133111ebULL;
    return z ^ (z >> 31);
  }
  void seed(uint64_t x) { for (int i = 0; i < 4; i++) s[i] = splitmix(x); }
  static uint64_t rotl(uint64_t x, int k) { return (x << k) | (x >> (64 - k)); }
  uint64_t next() {
    uint64_t r = rotl(s[1] * 5, 7) * 9, t = s[1] << 17;
    s[2] ^= s[0]; s[3] ^= s[1]; s[1] ^= s[2]; s[0] ^= s[3]; s[2] ^= t; s[3] = rotl(s[3], 45);
    return r;
  }
  // uniform in [0,n), n>0
  uint64_t below(uint64_t n) { return next() % n; }
  // uniform in [lo,hi]
  int64_t range(int64_t lo, int64_t hi) { return lo + (int64_t)below((uint64_t)(hi - lo + 1)); }
  bool chance(uint32_t num, uint32_t den) { return below(den) < num; }
};
static inline uint64_t mix64(uint64_t a, uint64_t b) {
  uint64_t x = a ^ (b + 0x9e3779b97f4a7c15ULL + (a << 6) + (a >> 2));
  return Prng::splitmix(x);
}
static inline uint64_t fnv1a(uint64_t h, const void *p, unsigned long n) {
  const unsigned char *c = (const unsigned char *)p;
  for (unsigned long i = 0; i < n; i++) { h ^= c[i]; h *= 0x100000001b3ULL; }
  return h;
}
#define FNV_INIT 0xcbf29ce484222325ULL
