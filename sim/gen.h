// gen.h — the closed input catalogue (DESIGN §2.5).  String sets are a pure function of a fixed
// catalogue seed and a set index; VERIF_SEED only chooses *which* entry a run uses.
#pragma once
#include "prng.h"
#include <algorithm>
#include <string>
#include <vector>

static const uint64_t CATALOGUE_SEED = 0x11bc5d0c47a106ULL; // never change without re-sweeping (DESIGN §2.5)
static const int CATALOGUE_QUICK = 48, CATALOGUE_THOROUGH = 512;

struct StringSet {
  std::vector<std::string> v; // sorted by unsigned byte order, unique, non-empty, bytes 0x02..0xFE
  int alpha = 0, lenprof = 0, freqprof = 0;
  size_t total() const { size_t t = 0; for (auto &s : v) t += s.size() + 1; return t; }
};

static inline bool ubyte_less(const std::string &a, const std::string &b) {
  size_t n = std::min(a.size(), b.size());
  int c = memcmp(a.data(), b.data(), n);
  if (c) return c < 0;
  return a.size() < b.size();
}

static inline unsigned char gen_sym(Prng &r, int alpha, int freqprof) {
  int k;
  if (freqprof == 0) k = (int)r.below((uint64_t)alpha);
  else if (freqprof == 1) { double u = (double)(r.next() >> 11) / 9007199254740992.0; k = (int)(alpha * u * u * u); }
  else { k = 0; while (k + 1 < alpha && r.chance(62, 100)) k++; }
  if (k >= alpha) k = alpha - 1;
  switch (alpha) {
  case 2: return (unsigned char)('a' + k);
  case 4: return (unsigned char)("acgt"[k]);
  case 26: return (unsigned char)('a' + k);
  default: return (unsigned char)(0x02 + k); // 253 symbols: 0x02..0xFE
  }
}

// max_n bounds the set size (blocks harness uses smaller sets than the history harness)
static inline StringSet catalogue_set(uint32_t idx, int max_n) {
  Prng r; r.seed(mix64(CATALOGUE_SEED, idx));
  StringSet s;
  static const int alphas[] = {2, 4, 26, 253};
  static const int ns[] = {1, 2, 3, 4, 5, 7, 8, 9, 12, 15, 16, 17, 24, 31, 32, 33, 50, 64, 65, 100, 120, 150, 200};
  s.alpha = alphas[idx % 4];
  s.lenprof = (int)((idx / 4) % 4);
  s.freqprof = (int)((idx / 16) % 3);
  int n = ns[r.below(sizeof ns / sizeof ns[0])];
  if (n > max_n) n = 1 + (int)r.below((uint64_t)max_n);
  if (idx % 8 == 7) {
    // adversarial for statistical coders: many short strings over a few common symbols plus one to three long
    // strings made of symbols that occur nowhere else (codewords far longer than 8 bits, strings of maximal length)
    s.lenprof = 4; s.alpha = 5;
    int longs = (int)r.range(1, 3);
    int guard2 = 0;
    // enough text for the rare symbols to get codewords well beyond 8 bits
    n = std::min(max_n, 120 + (int)r.below(80));
    while ((int)s.v.size() < std::max(1, n - longs) && guard2++ < n * 20 + 100) {
      std::string t; int L = (int)r.range(1, 8);
      for (int i = 0; i < L; i++) t += (char)('a' + (int)r.below(5));
      s.v.push_back(t);
      std::sort(s.v.begin(), s.v.end(), ubyte_less);
      s.v.erase(std::unique(s.v.begin(), s.v.end()), s.v.end());
    }
    for (int k = 0; k < longs; k++) {
      std::string t; int L = (int)r.range(20, 150);
      for (int i = 0; i < L; i++) t += (char)(0x80 + (int)r.below(0x7F));
      s.v.push_back(t);
    }
    std::sort(s.v.begin(), s.v.end(), ubyte_less);
    s.v.erase(std::unique(s.v.begin(), s.v.end()), s.v.end());
    return s;
  }
  if (idx % 16 == 11) {
    // equal-length, incompressible: 40..200 strings of one length L in 1..3, drawn uniformly from an alphabet with
    // about twice as many words of that length as strings -- (almost) no repeated pair for Re-Pair to replace, so
    // every string keeps the maximal sequence length and the deepest level of the DAC/VLS structures is as
    // populated as the first (seeded change C07-r5-1: an over-read that needs > 32 sequences at the deepest level)
    s.lenprof = 5;
    int L = 1 + (int)((idx / 16) % 3);
    s.alpha = L == 1 ? 253 : (L == 2 ? 16 : 8);
    n = std::min(max_n, 40 + (int)r.below(161));
    int guard3 = 0;
    while ((int)s.v.size() < n && guard3++ < n * 20 + 100) {
      std::string t;
      for (int i = 0; i < L; i++) t += (char)(L == 1 ? 0x02 + (int)r.below(253) : 'a' + (int)r.below((uint64_t)s.alpha));
      s.v.push_back(t);
      std::sort(s.v.begin(), s.v.end(), ubyte_less);
      s.v.erase(std::unique(s.v.begin(), s.v.end()), s.v.end());
    }
    return s;
  }
  std::string common;
  if (s.lenprof == 2 || s.lenprof == 3) { int L = (int)r.range(128, 160); for (int i = 0; i < L; i++) common += (char)gen_sym(r, s.alpha, s.freqprof); }
  int guard = 0;
  while ((int)s.v.size() < n && guard++ < n * 20 + 100) {
    std::string t;
    switch (s.lenprof) {
    case 0: { int L = (int)r.range(1, 8); for (int i = 0; i < L; i++) t += (char)gen_sym(r, s.alpha, s.freqprof); break; }
    case 1: { int L = r.chance(1, 8) ? (int)r.range(128, 200) : (int)r.range(1, 24); for (int i = 0; i < L; i++) t += (char)gen_sym(r, s.alpha, s.freqprof); break; }
    case 2: { t = common; int L = (int)r.range(0, 12); for (int i = 0; i < L; i++) t += (char)gen_sym(r, s.alpha, s.freqprof); if (r.chance(1, 6)) t = t.substr(0, (size_t)r.range(1, (int64_t)t.size())); break; }
    default: { // near-identical long strings, as in the repository's tests
      t = common; int pos = (int)r.below((uint64_t)t.size()); t[pos] = (char)gen_sym(r, s.alpha, s.freqprof);
      if (r.chance(1, 3)) t += (char)gen_sym(r, s.alpha, s.freqprof);
      break; }
    }
    if (t.empty()) continue;
    s.v.push_back(t);
    std::sort(s.v.begin(), s.v.end(), ubyte_less);
    s.v.erase(std::unique(s.v.begin(), s.v.end()), s.v.end());
  }
  return s;
}

// large sets of short strings (cold-start runs of the parallel build: hash tables beyond 1024 cells)
static inline StringSet catalogue_big(uint32_t idx) {
  Prng r; r.seed(mix64(CATALOGUE_SEED ^ 0xb16, idx));
  StringSet s; s.alpha = 26; s.lenprof = 0; s.freqprof = (int)(idx % 3);
  static const int ns[] = {2600, 3400, 4300, 6000};
  int n = ns[idx % 4];
  s.v.reserve((size_t)n + 16);
  while ((int)s.v.size() < n) {
    for (int k = 0; k < n; k++) { std::string t; int L = (int)r.range(4, 9); for (int i = 0; i < L; i++) t += (char)gen_sym(r, 26, s.freqprof); s.v.push_back(t); }
    std::sort(s.v.begin(), s.v.end(), ubyte_less);
    s.v.erase(std::unique(s.v.begin(), s.v.end()), s.v.end());
  }
  return s;
}

// one NUL-separated buffer, allocated with new[] (IteratorDictStringPlain deletes it), `extra` spare NUL bytes
static inline unsigned char *flatten(const std::vector<std::string> &v, size_t *len, size_t extra = 1) {
  size_t t = 0; for (auto &s : v) t += s.size() + 1;
  unsigned char *b = new unsigned char[t + extra];
  size_t p = 0;
  for (auto &s : v) { memcpy(b + p, s.data(), s.size()); p += s.size(); b[p++] = 0; }
  for (size_t i = 0; i < extra; i++) b[t + i] = 0;
  *len = t;
  return b;
}
