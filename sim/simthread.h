// simthread — deterministic thread simulator (seam S1).  See DESIGN.md §2.1 and Appendix B.
// Real pthreads, exactly one released at a time; the seeded scheduler decides who runs.
#pragma once
#include <stdint.h>
#include <stddef.h>

enum SimStrategy { ST_RANDOM = 0, ST_STICKY = 1, ST_PCT = 2, ST_STARVE = 3, ST_LOWFIRST = 4, ST_HIGHFIRST = 5, ST_TRACE = 6, ST_RR = 7, ST_PFRR = 8 };
enum SimOutcome { SO_OK = 0, SO_DEADLOCK = 1, SO_STEPCAP = 2, SO_MISUSE = 3 };
enum SimOp {
  OP_CREATE = 1, OP_LOCK = 2, OP_LOCKED = 3, OP_TRYLOCK = 4, OP_UNLOCK = 5, OP_CWAIT = 6, OP_CWOKEN = 7,
  OP_BCAST = 8, OP_SIGNAL = 9, OP_JOIN = 10, OP_JOINED = 11, OP_EXIT = 12, OP_YIELD = 13, OP_SLEEP = 14,
  OP_TIMEOUT = 15, OP_SPURIOUS = 16, OP_PREEMPT = 17, OP_NOTE = 18, OP_BEGIN = 19, OP_END = 20
};

struct SimConfig {
  uint64_t seed = 0;          // seeds the scheduler PRNG
  int strategy = ST_RANDOM;
  int pct_depth = 1;          // number of priority change points
  int expected_len = 200;     // calibrated run length for change-point placement
  int sticky_den = 8;         // stay with probability (den-1)/den
  int victim = 1;             // starve: thread ordinal that runs only when nothing else can
  int spurious_budget = 0;    // injectable spurious wake-ups
  int spurious_permille = 20; // chance per scheduling point while budget remains
  int pcguard_permille = 0;   // chance that a pc-guard hit becomes a scheduling point
  uint64_t pcguard_seed = 0;
  int step_cap = 50000;
  int fair_after = 25000;     // unfair strategies hand over to random after this many steps
  const uint32_t *trace = nullptr; // ST_TRACE: explicit decisions (choice | spurious<<16)
  size_t trace_len = 0;
  bool keep_log = false;      // keep the full event log (replay / probes)
  bool reap_exits = false;    // a finished thread's real teardown (and a new thread's start-up) completes before the next simulated
                              // step: no real code of two threads overlaps at all (history harness: heap layout = f(seed))
};

struct SimEvent { uint32_t step; uint16_t thread; uint16_t op; int32_t obj; int32_t aux; };

struct SimResult {
  int outcome = SO_OK;
  uint64_t steps = 0, switches = 0, sig = 0;
  uint64_t spurious_fired = 0, signal_choices = 0, preempts = 0, timeouts = 0;
  uint64_t clock_ns_advanced = 0;
  int threads = 0;
  int lost_notify_window = 0;  // probe (Appendix B), computed at end / at deadlock
  int bcast_no_waiter = 0;     // notification issued with no waiter on the condvar
  int contended_locks = 0;     // lock attempted while owned by another thread
  char detail[512] = {0};      // blocked-on graph for deadlocks, message for misuse
};

extern "C" {
// Begin a simulated run; the calling thread becomes T0.
void sim_begin(const SimConfig *cfg);
// Wait (in simulation) for all other simulated threads to finish; ends the run.
// Fatal outcomes (deadlock, step cap, misuse) do not return: the fatal callback is invoked, then _exit(3).
void sim_end(SimResult *out);
// Current global event sequence number (monotone, one baton).
uint64_t sim_now(void);
// Record a harness-level event in the log / signature.
void sim_note(int code, int arg);
// Explicit scheduling point (harness tasks may yield).
void sim_yield(void);
int sim_active(void);
// Stop simulating for good in this process (death paths): every interposer passes through from now on.
void sim_abandon(void);
// Death path (sanitizer report): the run in flight leaves its spec and decision trace on `fd`.
// Implemented in the uninstrumented simulator core: no instrumented code may run while a sanitizer dies.
void sim_install_death_cb(void);
void sim_set_death_info(const char *spec, unsigned long long run, int fd); // spec==NULL disables
int sim_self(void); // ordinal of the calling simulated thread, -1 if none
// decision trace of the current / last run
const uint32_t *sim_trace(size_t *len);
const SimEvent *sim_log(size_t *len);
void sim_set_fatal_cb(void (*cb)(const SimResult *));
const char *sim_opname(int op);
// real (non-simulated) monotonic clock for harness timing
uint64_t sim_real_ns(void);
}
