// simdisk — in-memory files behind a seeded, seekable std::streambuf (seam S4).  DESIGN.md §2.4.
#pragma once
#include "prng.h"
#include <algorithm>
#include <ios>
#include <streambuf>
#include <string>
#include <vector>

struct SimFile {
  std::string name;
  std::string data;
};

struct SimDisk {
  std::vector<SimFile> files;
  int create(const std::string &name) { files.push_back({name, std::string()}); return (int)files.size() - 1; }
  std::string &bytes(int f) { return files[(size_t)f].data; }
};

struct SimIoStats {
  uint64_t underflows = 0, overflows = 0, seeks = 0, seek_backs = 0, straddling_seek_backs = 0;
  uint64_t bytes_written = 0;
  uint64_t high_water = 0;   // highest offset ever consumed by the reader (exclusive)
  bool hit_eof = false;
};

// A seekable stream buffer over one SimFile with small seeded get/put areas.
// chunk == 0 means "whole file in one area".  Consumption accounting is exact: the get pointer is
// sampled at every refill, seek and on demand (not the prefetch position).
class SimStreambuf : public std::streambuf {
public:
  SimStreambuf(std::string *file, size_t chunk_small, size_t small_zone_lo, size_t small_zone_hi, size_t chunk_big)
      : f_(file), cs_(chunk_small), lo_(small_zone_lo), hi_(small_zone_hi), cb_(chunk_big) {
    setg(nullptr, nullptr, nullptr);
    setp(nullptr, nullptr);
  }
  SimIoStats st;

  // current logical read position
  size_t tell_get() const { return gptr() ? area_off_ + (size_t)(gptr() - eback()) : area_off_; }
  void sample() { size_t p = tell_get(); if (p > st.high_water) st.high_water = p; }
  void set_limit(size_t limit) { limit_ = limit; } // bytes at >= limit are still readable (poisoned tail) but flagged by high_water

protected:
  size_t chunk_at(size_t off) const {
    size_t c = (off < lo_ || off >= hi_) ? cs_ : cb_;
    if (c == 0) c = f_->size() > off ? f_->size() - off : 1;
    return c;
  }
  int_type underflow() override {
    sample();
    size_t pos = tell_get();
    if (pos >= f_->size()) { st.hit_eof = true; return traits_type::eof(); }
    st.underflows++;
    size_t n = std::min(chunk_at(pos), f_->size() - pos);
    area_.assign(f_->data() + pos, n);
    area_off_ = pos;
    setg(&area_[0], &area_[0], &area_[0] + n);
    return traits_type::to_int_type(*gptr());
  }
  std::streamsize xsgetn(char *s, std::streamsize n) override {
    std::streamsize got = 0;
    while (got < n) {
      if (gptr() == egptr()) { if (underflow() == traits_type::eof()) break; }
      std::streamsize k = std::min<std::streamsize>(n - got, egptr() - gptr());
      memcpy(s + got, gptr(), (size_t)k);
      gbump((int)k);
      got += k;
    }
    sample();
    return got;
  }
  pos_type seekoff(off_type off, std::ios_base::seekdir dir, std::ios_base::openmode which) override {
    if (which & std::ios_base::out) {
      flush_put();
      off_type base = dir == std::ios_base::beg ? 0 : dir == std::ios_base::cur ? (off_type)wpos_ : (off_type)f_->size();
      off_type np = base + off;
      if (np < 0) return pos_type(off_type(-1));
      wpos_ = (size_t)np;
      if (!(which & std::ios_base::in)) return pos_type((off_type)wpos_);
    }
    sample();
    size_t cur = tell_get();
    off_type base = dir == std::ios_base::beg ? 0 : dir == std::ios_base::cur ? (off_type)cur : (off_type)f_->size();
    off_type np = base + off;
    if (np < 0 || (size_t)np > f_->size()) return pos_type(off_type(-1));
    if (!(dir == std::ios_base::cur && off == 0)) {
      st.seeks++;
      if ((size_t)np < cur) {
        st.seek_backs++;
        if (!gptr() || (size_t)np < area_off_) st.straddling_seek_backs++;
      }
      // drop the get area: the next read refills at the new position (a legal stream behaviour)
      area_off_ = (size_t)np;
      setg(nullptr, nullptr, nullptr);
    }
    return pos_type(np);
  }
  pos_type seekpos(pos_type p, std::ios_base::openmode which) override { return seekoff(off_type(p), std::ios_base::beg, which); }

  // ---- output side ----
  int_type overflow(int_type c) override {
    flush_put();
    st.overflows++;
    size_t n = put_chunk_;
    parea_.assign(n, '\0');
    setp(&parea_[0], &parea_[0] + n);
    if (c != traits_type::eof()) { *pptr() = traits_type::to_char_type(c); pbump(1); }
    return traits_type::not_eof(c);
  }
  std::streamsize xsputn(const char *s, std::streamsize n) override {
    std::streamsize done = 0;
    while (done < n) {
      if (pptr() == epptr()) overflow(traits_type::eof());
      std::streamsize k = std::min<std::streamsize>(n - done, epptr() - pptr());
      memcpy(pptr(), s + done, (size_t)k);
      pbump((int)k);
      done += k;
    }
    return done;
  }
  int sync() override { flush_put(); return 0; }

public:
  void set_put_chunk(size_t c) { put_chunk_ = c ? c : 4096; }
  void flush_put() {
    if (pptr() && pptr() > pbase()) {
      size_t n = (size_t)(pptr() - pbase());
      if (wpos_ + n > f_->size()) f_->resize(wpos_ + n);
      memcpy(&(*f_)[wpos_], pbase(), n);
      wpos_ += n;
      st.bytes_written += n;
      setp(pbase(), epptr());
    }
  }
  size_t tell_put() { flush_put(); return wpos_; }
  void seek_put_end() { flush_put(); wpos_ = f_->size(); }

private:
  std::string *f_;
  size_t cs_, lo_, hi_, cb_;
  std::string area_, parea_;
  size_t area_off_ = 0;
  size_t wpos_ = 0;
  size_t put_chunk_ = 4096;
  size_t limit_ = (size_t)-1;
};

// Chunking policy of DESIGN §2.4: small seeded chunks (1..64) for images <= 16 KiB or within the
// first/last 4 KiB of larger ones; a large chunk elsewhere.
struct ChunkPolicy {
  size_t small = 7, big = 65536, zone_lo = 0, zone_hi = 0;
  static ChunkPolicy draw(Prng &r, size_t file_size) {
    ChunkPolicy p;
    if (r.chance(1, 5)) { p.small = 0; p.big = 0; return p; } // whole file at once (what std::stringstream shows)
    p.small = (size_t)r.range(1, 64);
    p.big = 65536;
    if (file_size <= 16384) { p.zone_lo = p.zone_hi = 0; p.big = p.small; } // small everywhere
    else { p.zone_lo = 4096; p.zone_hi = file_size - 4096; }
    return p;
  }
};
