// simthread — deterministic thread simulator (seam S1).  DESIGN.md §2.1, Appendix B.
//
// NEVER compile this file with a sanitizer: the baton hand-over must stay invisible to
// ThreadSanitizer so that the only happens-before edges it sees are the program's own.
//
// The executable that links this file defines pthread_* / clock symbols strongly, so calls made
// from inside libstdc++.so (std::thread, std::condition_variable, std::mutex) land here.
#ifndef _GNU_SOURCE
#define _GNU_SOURCE
#endif
#include "simthread.h"
#include "prng.h"
#include <dlfcn.h>
#include <errno.h>
#include <linux/futex.h>
#include <pthread.h>
#include <sched.h>
#include <stdarg.h>
#include <stdio.h>
#include <stdlib.h>
#include <string.h>
#include <sys/syscall.h>
#include <time.h>
#include <unistd.h>

// ---- sanitizer defaults (non-inline, used; defined here because this file is never instrumented,
// so they can run before the sanitizer runtime is initialised) ----------------------------------
extern "C" __attribute__((used)) const char *__asan_default_options() {
  return "exitcode=77:detect_leaks=0:abort_on_error=0:allocator_may_return_null=1:detect_stack_use_after_return=0:handle_segv=1:handle_abort=1";
}
extern "C" __attribute__((used)) const char *__tsan_default_options() {
  return "exitcode=66:report_thread_leaks=0:detect_deadlocks=0:report_signal_unsafe=0:halt_on_error=1:second_deadlock_stack=0:report_destroy_locked=0:history_size=7:handle_abort=1";
}
extern "C" __attribute__((used)) const char *__ubsan_default_options() { return "halt_on_error=1:print_stacktrace=1"; }

// ---------------------------------------------------------------------------------------------
// real functions: through the sanitizer's interceptor when one is linked, else RTLD_NEXT
// ---------------------------------------------------------------------------------------------
extern "C" {
#define WEAKI(ret, name, ...) ret __interceptor_##name(__VA_ARGS__) __attribute__((weak));
WEAKI(int, pthread_create, pthread_t *, const pthread_attr_t *, void *(*)(void *), void *)
WEAKI(int, pthread_join, pthread_t, void **)
WEAKI(int, pthread_detach, pthread_t)
WEAKI(int, pthread_mutex_lock, pthread_mutex_t *)
WEAKI(int, pthread_mutex_trylock, pthread_mutex_t *)
WEAKI(int, pthread_mutex_unlock, pthread_mutex_t *)
}
typedef int (*create_fn)(pthread_t *, const pthread_attr_t *, void *(*)(void *), void *);
typedef int (*join_fn)(pthread_t, void **);
typedef int (*detach_fn)(pthread_t);
typedef int (*mutex_fn)(pthread_mutex_t *);
typedef int (*cwait_fn)(pthread_cond_t *, pthread_mutex_t *);
typedef int (*ctimed_fn)(pthread_cond_t *, pthread_mutex_t *, const struct timespec *);
typedef int (*cclock_fn)(pthread_cond_t *, pthread_mutex_t *, clockid_t, const struct timespec *);
typedef int (*cond_fn)(pthread_cond_t *);
typedef int (*yield_fn)(void);
typedef int (*nanosleep_fn)(const struct timespec *, struct timespec *);
typedef int (*clocknano_fn)(clockid_t, int, const struct timespec *, struct timespec *);
typedef int (*usleep_fn)(useconds_t);

static void *next_sym(const char *n) {
  void *p = dlsym(RTLD_NEXT, n);
  if (!p) { fprintf(stderr, "simthread: cannot resolve %s\n", n); _exit(98); }
  return p;
}
#define REAL_I(type, name)                                                                        \
  static type real_##name() {                                                                     \
    static type f = nullptr;                                                                      \
    if (!f) f = (&__interceptor_##name) ? (type)&__interceptor_##name : (type)next_sym(#name);    \
    return f;                                                                                     \
  }
#define REAL_N(type, name)                                                                        \
  static type real_##name() {                                                                     \
    static type f = nullptr;                                                                      \
    if (!f) f = (type)next_sym(#name);                                                            \
    return f;                                                                                     \
  }
REAL_I(create_fn, pthread_create)
REAL_I(join_fn, pthread_join)
REAL_I(detach_fn, pthread_detach)
REAL_I(mutex_fn, pthread_mutex_lock)
REAL_I(mutex_fn, pthread_mutex_trylock)
REAL_I(mutex_fn, pthread_mutex_unlock)
REAL_N(cwait_fn, pthread_cond_wait)
REAL_N(ctimed_fn, pthread_cond_timedwait)
REAL_N(cclock_fn, pthread_cond_clockwait)
REAL_N(cond_fn, pthread_cond_signal)
REAL_N(cond_fn, pthread_cond_broadcast)
REAL_N(yield_fn, sched_yield)
REAL_N(nanosleep_fn, nanosleep)
REAL_N(clocknano_fn, clock_nanosleep)
REAL_N(usleep_fn, usleep)

// ---------------------------------------------------------------------------------------------
// state
// ---------------------------------------------------------------------------------------------
enum TState { T_FREE = 0, T_RUNNABLE, T_BLOCKED_MUTEX, T_WAITING_COND, T_REACQUIRE, T_JOINING, T_SLEEPING, T_ENDWAIT, T_DONE };

#define MAXT 64
#define MAXOBJ 256

struct Thr {
  int go;
  int state;
  int ord;
  void *mtx;        // mutex blocked on / to re-acquire
  void *cond;       // condvar waited on
  int join_target;
  bool timed;       // cond wait with a deadline
  bool timedout;
  uint64_t deadline;
  uint64_t prio;
  pthread_t real;
  bool real_valid, joined, detached;
  void *(*fn)(void *);
  void *arg;
  uint64_t guard_hits;
  int ktid;         // kernel thread id (reap_exits)
  int started;
};
struct MutexRec { void *addr; int owner; int depth; };
struct CondRec { void *addr; int waiters[MAXT]; int nw; };

static volatile int g_active = 0;
static Thr g_thr[MAXT];
static int g_nthr = 0;
static MutexRec g_mtx[MAXOBJ];
static int g_nmtx = 0;
static CondRec g_cond[MAXOBJ];
static int g_ncond = 0;
static SimConfig g_cfg;
static SimResult g_res;
static Prng g_rng;
static uint64_t g_steps, g_seq, g_sig, g_now_ns;
static int g_spurious_left;
static uint64_t g_cp[16];
// Fixed buffers in .bss: the simulator core must not call malloc/realloc/free (the sanitizers
// intercept them and ThreadSanitizer would see the core's own bookkeeping as unsynchronised writes).
#define TRACE_CAP (1u << 21)
#define LOG_CAP (1u << 21)
static uint32_t g_trace_out[TRACE_CAP];
static size_t g_trace_len = 0, g_trace_pos = 0;
static SimEvent g_log[LOG_CAP];
static size_t g_log_len = 0;
static void (*g_fatal_cb)(const SimResult *) = nullptr;
static __thread Thr *tl_self = nullptr;

static const uint64_t CLOCK_BASE_NS = 1000000000ULL * 1000000ULL; // arbitrary epoch

static inline void fwake(Thr *t) {
  __atomic_store_n(&t->go, 1, __ATOMIC_RELEASE);
  syscall(SYS_futex, &t->go, FUTEX_WAKE_PRIVATE, 1, 0, 0, 0);
}
// reap_exits: kernel tid of a simulated thread that has finished but whose real teardown (TSD destructors, the
// sanitizer's per-thread allocator cache going back to the central lists) may still be running.  Whoever gets the
// baton next waits for it to be gone, so that no real code of two threads ever overlaps -- not even that teardown.
static int g_zombie_ktid = 0;
static inline void fpark(Thr *t) {
  while (__atomic_load_n(&t->go, __ATOMIC_ACQUIRE) == 0) syscall(SYS_futex, &t->go, FUTEX_WAIT_PRIVATE, 0, 0, 0, 0);
  __atomic_store_n(&t->go, 0, __ATOMIC_RELAXED);
  if (g_zombie_ktid) {
    int z = g_zombie_ktid, pid = (int)syscall(SYS_getpid);
    while (syscall(SYS_tgkill, pid, z, 0) == 0) syscall(SYS_sched_yield);
    g_zombie_ktid = 0;
  }
}

static int mutex_ord(void *a) {
  for (int i = 0; i < g_nmtx; i++) if (g_mtx[i].addr == a) return i;
  if (g_nmtx >= MAXOBJ) { fprintf(stderr, "simthread: too many mutexes\n"); _exit(98); }
  g_mtx[g_nmtx].addr = a; g_mtx[g_nmtx].owner = -1; g_mtx[g_nmtx].depth = 0;
  return g_nmtx++;
}
static int cond_ord(void *a) {
  for (int i = 0; i < g_ncond; i++) if (g_cond[i].addr == a) return i;
  if (g_ncond >= MAXOBJ) { fprintf(stderr, "simthread: too many condvars\n"); _exit(98); }
  g_cond[g_ncond].addr = a; g_cond[g_ncond].nw = 0;
  return g_ncond++;
}

static void ev(int op, int obj, int aux) {
  Thr *s = tl_self;
  int t = s ? s->ord : 0xffff;
  uint64_t h = g_sig;
  h = mix64(h, ((uint64_t)t << 48) ^ ((uint64_t)op << 32) ^ (uint32_t)obj);
  h = mix64(h, (uint64_t)(uint32_t)aux);
  g_sig = h;
  g_seq++;
  if (g_cfg.keep_log) {
    if (g_log_len >= LOG_CAP) return; // signature still covers everything
    SimEvent e; e.step = (uint32_t)g_steps; e.thread = (uint16_t)t; e.op = (uint16_t)op; e.obj = obj; e.aux = aux;
    g_log[g_log_len++] = e;
  }
}

static void trace_push(uint32_t d) {
  if (g_trace_len < TRACE_CAP) g_trace_out[g_trace_len++] = d;
}
// next decision in [0,n): from the explicit trace when replaying, else from `fresh`
static uint32_t decide(uint32_t n, uint32_t fresh) {
  uint32_t d;
  if (g_cfg.strategy == ST_TRACE) {
    d = (g_trace_pos < g_cfg.trace_len) ? g_cfg.trace[g_trace_pos] % n : 0;
    g_trace_pos++;
  } else d = fresh % n;
  trace_push(d);
  return d;
}

static void compute_probes() {
  // lost-notify window: a notify on c while some other thread T owns a mutex m, and T's next
  // event on c is wait(c,m) with no unlock(m) by T in between.  One forward pass over the log.
  if (!g_cfg.keep_log) return;
  struct Pend { int c; int held[6]; int nh; };
  static int held[MAXT][6]; static int nheld[MAXT];
  static Pend pend[MAXT][4]; static int npend[MAXT];
  memset(nheld, 0, sizeof nheld); memset(npend, 0, sizeof npend);
  int cnt = 0;
  for (size_t i = 0; i < g_log_len; i++) {
    const SimEvent &e = g_log[i];
    int t = e.thread;
    if (t >= MAXT) continue;
    switch (e.op) {
    case OP_LOCKED: case OP_CWOKEN: { int m = (e.op == OP_LOCKED) ? e.obj : e.aux; if (nheld[t] < 6) held[t][nheld[t]++] = m; break; }
    case OP_UNLOCK: {
      for (int k = 0; k < nheld[t]; k++) if (held[t][k] == e.obj) { held[t][k] = held[t][--nheld[t]]; break; }
      for (int p = 0; p < npend[t];) {
        Pend &pd = pend[t][p];
        for (int k = 0; k < pd.nh; k++) if (pd.held[k] == e.obj) { pd.held[k] = pd.held[--pd.nh]; break; }
        if (pd.nh == 0) pend[t][p] = pend[t][--npend[t]]; else p++;
      }
      break;
    }
    case OP_CWAIT: {
      for (int k = 0; k < nheld[t]; k++) if (held[t][k] == e.aux) { held[t][k] = held[t][--nheld[t]]; break; }
      for (int p = 0; p < npend[t]; p++) {
        Pend &pd = pend[t][p];
        if (pd.c != e.obj) continue;
        for (int k = 0; k < pd.nh; k++) if (pd.held[k] == e.aux) { cnt++; break; }
      }
      npend[t] = 0;
      break;
    }
    case OP_EXIT: npend[t] = 0; nheld[t] = 0; break;
    case OP_BCAST: case OP_SIGNAL:
      for (int u = 0; u < g_nthr; u++) {
        if (u == t || nheld[u] == 0 || npend[u] >= 4) continue;
        bool dup = false;
        for (int p = 0; p < npend[u]; p++) if (pend[u][p].c == e.obj) dup = true;
        if (dup) continue;
        Pend &pd = pend[u][npend[u]++];
        pd.c = e.obj; pd.nh = nheld[u];
        for (int k = 0; k < nheld[u]; k++) pd.held[k] = held[u][k];
      }
      break;
    default: break;
    }
  }
  g_res.lost_notify_window = cnt;
}

static void fill_result() {
  g_res.steps = g_steps; g_res.sig = g_sig; g_res.threads = g_nthr; g_res.clock_ns_advanced = g_now_ns;
  compute_probes();
}

static void fatal(int outcome, const char *fmt, ...) {
  g_res.outcome = outcome;
  va_list ap; va_start(ap, fmt); vsnprintf(g_res.detail, sizeof g_res.detail, fmt, ap); va_end(ap);
  fill_result();
  g_active = 0;
  if (g_fatal_cb) g_fatal_cb(&g_res);
  else fprintf(stderr, "simthread fatal outcome=%d %s\n", outcome, g_res.detail);
  fflush(stdout); fflush(stderr);
  _exit(3);
}

static void describe_blocked(char *buf, size_t n) {
  size_t p = 0; buf[0] = 0;
  for (int i = 0; i < g_nthr && p + 40 < n; i++) {
    Thr &t = g_thr[i];
    switch (t.state) {
    case T_BLOCKED_MUTEX: p += snprintf(buf + p, n - p, "T%d:mutex(m%d,owner=T%d) ", i, mutex_ord(t.mtx), g_mtx[mutex_ord(t.mtx)].owner); break;
    case T_REACQUIRE: p += snprintf(buf + p, n - p, "T%d:reacquire(m%d,owner=T%d) ", i, mutex_ord(t.mtx), g_mtx[mutex_ord(t.mtx)].owner); break;
    case T_WAITING_COND: p += snprintf(buf + p, n - p, "T%d:cond(cv%d) ", i, cond_ord(t.cond)); break;
    case T_JOINING: p += snprintf(buf + p, n - p, "T%d:join(T%d) ", i, t.join_target); break;
    case T_ENDWAIT: p += snprintf(buf + p, n - p, "T%d:end ", i); break;
    case T_SLEEPING: p += snprintf(buf + p, n - p, "T%d:sleep ", i); break;
    case T_RUNNABLE: p += snprintf(buf + p, n - p, "T%d:runnable ", i); break;
    default: break;
    }
  }
  if (p && buf[p - 1] == ' ') buf[p - 1] = 0;
}

static bool enabled(Thr &t) {
  switch (t.state) {
  case T_RUNNABLE: return true;
  case T_BLOCKED_MUTEX: case T_REACQUIRE: return g_mtx[mutex_ord(t.mtx)].owner < 0;
  case T_JOINING: return g_thr[t.join_target].state == T_DONE;
  case T_ENDWAIT: for (int i = 0; i < g_nthr; i++) if (&g_thr[i] != &t && g_thr[i].state != T_DONE) return false; return true;
  default: return false;
  }
}
static bool has_timer(Thr &t) { return t.state == T_SLEEPING || (t.state == T_WAITING_COND && t.timed); }

static void fire_timer(Thr &t) {
  if (t.deadline > g_now_ns) g_now_ns = t.deadline;
  g_res.timeouts++;
  if (t.state == T_SLEEPING) t.state = T_RUNNABLE;
  else { // timed cond wait: leave the waiter set, re-acquire the mutex
    CondRec &c = g_cond[cond_ord(t.cond)];
    for (int k = 0; k < c.nw; k++) if (c.waiters[k] == t.ord) { for (int j = k; j + 1 < c.nw; j++) c.waiters[j] = c.waiters[j + 1]; c.nw--; break; }
    t.timedout = true; t.state = T_REACQUIRE;
  }
  ev(OP_TIMEOUT, t.ord, 0);
}

// The scheduling point.  self->state has been set by the caller.
static void sched(Thr *self) {
  for (;;) {
    g_steps++;
    if ((int)g_steps > g_cfg.step_cap) {
      char b[400]; describe_blocked(b, sizeof b);
      fatal(SO_STEPCAP, "step cap %d exceeded: %s", g_cfg.step_cap, b);
    }
    // fault: spurious wake-up
    if (g_spurious_left > 0) {
      int cw[MAXT], ncw = 0;
      for (int i = 0; i < g_nthr; i++) if (g_thr[i].state == T_WAITING_COND) cw[ncw++] = i;
      if (ncw) {
        uint32_t fresh = g_rng.chance((uint32_t)g_cfg.spurious_permille, 1000) ? 1 + (uint32_t)g_rng.below((uint64_t)ncw) : 0;
        uint32_t d = decide((uint32_t)ncw + 1, fresh);
        if (d) {
          Thr &w = g_thr[cw[d - 1]];
          CondRec &c = g_cond[cond_ord(w.cond)];
          for (int k = 0; k < c.nw; k++) if (c.waiters[k] == w.ord) { for (int j = k; j + 1 < c.nw; j++) c.waiters[j] = c.waiters[j + 1]; c.nw--; break; }
          w.state = T_REACQUIRE;
          g_spurious_left--; g_res.spurious_fired++;
          ev(OP_SPURIOUS, w.ord, 0);
        }
      }
    }
    // enabled list: self first (decision 0 = stay), then ascending ordinal; timers appended
    int list[2 * MAXT]; bool istimer[2 * MAXT]; int n = 0;
    if (self->state != T_DONE && enabled(*self)) { list[n] = self->ord; istimer[n++] = false; }
    for (int i = 0; i < g_nthr; i++) if (&g_thr[i] != self && g_thr[i].state != T_DONE && enabled(g_thr[i])) { list[n] = i; istimer[n++] = false; }
    int nplain = n;
    for (int i = 0; i < g_nthr; i++) if (has_timer(g_thr[i])) { list[n] = i; istimer[n++] = true; }
    if (n == 0) {
      bool alive = false;
      for (int i = 0; i < g_nthr; i++) if (g_thr[i].state != T_DONE) alive = true;
      if (!alive) return; // everything finished (only reachable from an exiting thread)
      char b[400]; describe_blocked(b, sizeof b);
      fatal(SO_DEADLOCK, "%s", b);
    }
    int idx;
    if (nplain == 0) {
      // discrete-event rule: nothing runnable, jump to the earliest deadline
      idx = 0;
      for (int k = 1; k < n; k++) if (g_thr[list[k]].deadline < g_thr[list[idx]].deadline) idx = k;
      fire_timer(g_thr[list[idx]]);
      continue;
    }
    int strat = g_cfg.strategy;
    if (strat != ST_TRACE && (int)g_steps > g_cfg.fair_after) strat = ST_RANDOM;
    uint32_t fresh = 0;
    switch (strat) {
    case ST_TRACE: break;
    case ST_RANDOM: fresh = (uint32_t)g_rng.below((uint64_t)n); break;
    case ST_STICKY:
      if (list[0] == self->ord && n > 1 && !g_rng.chance(1, (uint32_t)g_cfg.sticky_den)) fresh = 0;
      else if (list[0] == self->ord && n > 1) fresh = 1 + (uint32_t)g_rng.below((uint64_t)n - 1);
      else fresh = (uint32_t)g_rng.below((uint64_t)n);
      break;
    case ST_PCT: {
      for (int k = 0; k < g_cfg.pct_depth && k < 16; k++)
        if (g_cp[k] == g_steps && self->state != T_DONE) self->prio = (uint64_t)(g_cfg.pct_depth - k);
      int best = 0;
      for (int k = 1; k < nplain; k++) if (g_thr[list[k]].prio > g_thr[list[best]].prio) best = k;
      fresh = (uint32_t)best;
      // timers under pct: fire one occasionally so that timed code makes progress
      if (n > nplain && g_rng.chance(1, 16)) fresh = (uint32_t)nplain + (uint32_t)g_rng.below((uint64_t)(n - nplain));
      break;
    }
    case ST_STARVE: {
      int cand[2 * MAXT], nc = 0;
      for (int k = 0; k < n; k++) if (list[k] != g_cfg.victim) cand[nc++] = k;
      fresh = nc ? (uint32_t)cand[g_rng.below((uint64_t)nc)] : 0;
      break;
    }
    case ST_LOWFIRST: { int best = 0; for (int k = 1; k < nplain; k++) if (list[k] < list[best]) best = k; fresh = (uint32_t)best; break; }
    case ST_PFRR: { // producer (T0) first, the other threads round robin: a fast producer ahead of slow workers
      int best = -1, wrap = -1, t0 = -1;
      for (int k = 0; k < nplain; k++) {
        if (list[k] == 0) { t0 = k; continue; }
        if (list[k] > self->ord && (best < 0 || list[k] < list[best])) best = k;
        if (wrap < 0 || list[k] < list[wrap]) wrap = k;
      }
      fresh = (uint32_t)(t0 >= 0 ? t0 : (best >= 0 ? best : wrap));
      break;
    }
    case ST_RR: { // round robin: the enabled thread with the next ordinal after the current one (maximal interleaving)
      int best = -1, wrap = 0;
      for (int k = 0; k < nplain; k++) { if (list[k] > self->ord && (best < 0 || list[k] < list[best])) best = k; if (list[k] < list[wrap]) wrap = k; }
      fresh = (uint32_t)(best >= 0 ? best : wrap);
      break;
    }
    case ST_HIGHFIRST: { int best = 0; for (int k = 1; k < nplain; k++) if (list[k] > list[best]) best = k; fresh = (uint32_t)best; break; }
    }
    idx = (int)decide((uint32_t)n, fresh);
    Thr *next = &g_thr[list[idx]];
    if (istimer[idx]) { fire_timer(*next); continue; }
    // grant
    if (next->state == T_BLOCKED_MUTEX || next->state == T_REACQUIRE) {
      MutexRec &m = g_mtx[mutex_ord(next->mtx)];
      m.owner = next->ord; m.depth = 1;
    }
    next->state = T_RUNNABLE;
    if (next != self) {
      g_res.switches++;
      bool done = (self->state == T_DONE);
      if (done) tl_self = nullptr;
      if (done && g_cfg.reap_exits) g_zombie_ktid = self->ktid;
      fwake(next);
      if (!done) fpark(self);
    }
    return;
  }
}

// ---------------------------------------------------------------------------------------------
// control API
// ---------------------------------------------------------------------------------------------
extern "C" void sim_set_fatal_cb(void (*cb)(const SimResult *)) { g_fatal_cb = cb; }
extern "C" int sim_active(void) { return g_active && tl_self; }
extern "C" int sim_self(void) { return (g_active && tl_self) ? tl_self->ord : -1; }
extern "C" uint64_t sim_now(void) { return g_seq; }
extern "C" const uint32_t *sim_trace(size_t *len) { *len = g_trace_len; return g_trace_out; }
extern "C" const SimEvent *sim_log(size_t *len) { *len = g_log_len; return g_log; }
extern "C" uint64_t sim_real_ns(void) {
  struct timespec ts; syscall(SYS_clock_gettime, CLOCK_MONOTONIC, &ts);
  return (uint64_t)ts.tv_sec * 1000000000ULL + (uint64_t)ts.tv_nsec;
}
extern "C" const char *sim_opname(int op) {
  static const char *n[] = {"?", "create", "lock", "locked", "trylock", "unlock", "cwait", "cwoken", "bcast", "signal", "join", "joined", "exit", "yield", "sleep", "timeout", "spurious", "preempt", "note", "begin", "end"};
  return (op >= 0 && op <= 20) ? n[op] : "?";
}

extern "C" void sim_begin(const SimConfig *cfg) {
  if (g_active) { fprintf(stderr, "simthread: nested sim_begin\n"); _exit(98); }
  g_cfg = *cfg;
  memset(&g_res, 0, sizeof g_res);
  memset(g_thr, 0, sizeof g_thr);
  g_nthr = 0; g_nmtx = 0; g_ncond = 0;
  g_steps = 0; g_seq = 0; g_sig = FNV_INIT; g_now_ns = 0;
  g_trace_len = 0; g_trace_pos = 0; g_log_len = 0;
  g_spurious_left = cfg->spurious_budget;
  g_zombie_ktid = 0;
  g_rng.seed(cfg->seed);
  int el = cfg->expected_len > 1 ? cfg->expected_len : 2;
  for (int k = 0; k < 16; k++) g_cp[k] = 1 + g_rng.below((uint64_t)el);
  Thr &t = g_thr[0];
  t.ord = 0; t.state = T_RUNNABLE; t.prio = 16 + g_rng.below(1u << 30); t.real = pthread_self(); t.real_valid = false;
  g_nthr = 1;
  tl_self = &t;
  g_active = 1;
  ev(OP_BEGIN, 0, 0);
}

extern "C" void sim_end(SimResult *out) {
  Thr *self = tl_self;
  if (!g_active || !self || self->ord != 0) { fprintf(stderr, "simthread: sim_end outside run\n"); _exit(98); }
  ev(OP_END, 0, 0);
  self->state = T_ENDWAIT;
  sched(self);
  // reap threads the program did not join
  g_active = 0;
  for (int i = 1; i < g_nthr; i++)
    if (g_thr[i].real_valid && !g_thr[i].joined && !g_thr[i].detached) { real_pthread_join()(g_thr[i].real, nullptr); g_thr[i].joined = true; }
  g_res.outcome = SO_OK;
  fill_result();
  tl_self = nullptr;
  if (out) *out = g_res;
}

extern "C" void sim_note(int code, int arg) {
  if (g_active && tl_self) ev(OP_NOTE, code, arg);
}
extern "C" void sim_yield(void) {
  Thr *s = tl_self;
  if (!g_active || !s) return;
  ev(OP_YIELD, 0, 0);
  s->state = T_RUNNABLE;
  sched(s);
}

// ---------------------------------------------------------------------------------------------
// interposed symbols
// ---------------------------------------------------------------------------------------------
static void *trampoline(void *p) {
  Thr *t = (Thr *)p;
  tl_self = t;
  t->ktid = (int)syscall(SYS_gettid);
  __atomic_store_n(&t->started, 1, __ATOMIC_RELEASE);
  fpark(t);
  void *r = t->fn(t->arg);
  // the thread function returned
  ev(OP_EXIT, 0, 0);
  t->state = T_DONE;
  sched(t); // hands the baton on, does not park; tl_self cleared inside
  tl_self = nullptr;
  return r;
}

extern "C" int pthread_create(pthread_t *tid, const pthread_attr_t *attr, void *(*fn)(void *), void *arg) {
  Thr *s = tl_self;
  if (!g_active || !s) return real_pthread_create()(tid, attr, fn, arg);
  if (g_nthr >= MAXT) fatal(SO_MISUSE, "too many threads");
  Thr &t = g_thr[g_nthr];
  memset(&t, 0, sizeof t);
  t.ord = g_nthr; t.state = T_RUNNABLE; t.fn = fn; t.arg = arg;
  t.prio = 16 + g_rng.below(1u << 30);
  g_nthr++;
  int rc = real_pthread_create()(&t.real, attr, trampoline, &t);
  if (rc) { g_nthr--; return rc; }
  t.real_valid = true;
  // reap_exits: the new thread's start-up (runtime bookkeeping before it parks) is over before the creator goes on
  if (g_cfg.reap_exits) while (!__atomic_load_n(&t.started, __ATOMIC_ACQUIRE)) syscall(SYS_sched_yield);
  if (attr) { int ds = 0; pthread_attr_getdetachstate(attr, &ds); if (ds == PTHREAD_CREATE_DETACHED) t.detached = true; }
  *tid = t.real;
  ev(OP_CREATE, t.ord, 0);
  s->state = T_RUNNABLE;
  sched(s);
  return 0;
}

static Thr *find_thr(pthread_t r) {
  for (int i = 1; i < g_nthr; i++) if (g_thr[i].real_valid && pthread_equal(g_thr[i].real, r)) return &g_thr[i];
  return nullptr;
}

extern "C" int pthread_join(pthread_t tid, void **ret) {
  Thr *s = tl_self;
  Thr *t = (g_active && s) ? find_thr(tid) : nullptr;
  if (!t || t->joined) return real_pthread_join()(tid, ret);
  ev(OP_JOIN, t->ord, 0);
  s->join_target = t->ord;
  s->state = T_JOINING;
  sched(s);
  int rc = real_pthread_join()(tid, ret);
  t->joined = true;
  ev(OP_JOINED, t->ord, 0);
  return rc;
}

extern "C" int pthread_detach(pthread_t tid) {
  Thr *s = tl_self;
  Thr *t = (g_active && s) ? find_thr(tid) : nullptr;
  if (t) t->detached = true;
  return real_pthread_detach()(tid);
}

static bool is_recursive(pthread_mutex_t *m) { return (m->__data.__kind & 127) == PTHREAD_MUTEX_RECURSIVE_NP; }

extern "C" int pthread_mutex_lock(pthread_mutex_t *m) {
  Thr *s = tl_self;
  if (!g_active || !s) return real_pthread_mutex_lock()(m);
  int o = mutex_ord(m);
  MutexRec &r = g_mtx[o];
  if (r.owner == s->ord) {
    if (is_recursive(m)) { r.depth++; return real_pthread_mutex_lock()(m); }
    fatal(SO_MISUSE, "self_deadlock: T%d locks m%d which it already owns", s->ord, o);
  }
  if (r.owner >= 0) g_res.contended_locks++;
  ev(OP_LOCK, o, r.owner);
  s->mtx = m;
  s->state = T_BLOCKED_MUTEX;
  sched(s); // returns once the scheduler granted the mutex to this thread
  int rc = real_pthread_mutex_lock()(m);
  ev(OP_LOCKED, o, 0);
  return rc;
}

extern "C" int pthread_mutex_trylock(pthread_mutex_t *m) {
  Thr *s = tl_self;
  if (!g_active || !s) return real_pthread_mutex_trylock()(m);
  int o = mutex_ord(m);
  MutexRec &r = g_mtx[o];
  int rc;
  if (r.owner < 0) { r.owner = s->ord; r.depth = 1; rc = real_pthread_mutex_trylock()(m); if (rc) { r.owner = -1; } }
  else if (r.owner == s->ord && is_recursive(m)) { r.depth++; rc = real_pthread_mutex_trylock()(m); }
  else rc = EBUSY;
  ev(OP_TRYLOCK, o, rc);
  if (rc == 0) ev(OP_LOCKED, o, 0);
  s->state = T_RUNNABLE;
  sched(s);
  return rc;
}

extern "C" int pthread_mutex_unlock(pthread_mutex_t *m) {
  Thr *s = tl_self;
  if (!g_active || !s) return real_pthread_mutex_unlock()(m);
  int o = mutex_ord(m);
  MutexRec &r = g_mtx[o];
  if (r.owner != s->ord) {
    if (r.owner < 0) return real_pthread_mutex_unlock()(m); // locked outside the simulation
    fatal(SO_MISUSE, "unlock_by_non_owner: T%d unlocks m%d owned by T%d", s->ord, o, r.owner);
  }
  int rc = real_pthread_mutex_unlock()(m);
  if (--r.depth > 0) return rc;
  r.owner = -1;
  ev(OP_UNLOCK, o, 0);
  s->state = T_RUNNABLE;
  sched(s);
  return rc;
}

static int cond_wait_common(pthread_cond_t *c, pthread_mutex_t *m, bool timed, uint64_t deadline) {
  Thr *s = tl_self;
  int co = cond_ord(c), mo = mutex_ord(m);
  MutexRec &r = g_mtx[mo];
  CondRec &cr = g_cond[co];
  if (r.owner == s->ord) { real_pthread_mutex_unlock()(m); r.owner = -1; r.depth = 0; }
  ev(OP_CWAIT, co, mo);
  cr.waiters[cr.nw++] = s->ord;
  s->cond = c; s->mtx = m; s->timed = timed; s->deadline = deadline; s->timedout = false;
  s->state = T_WAITING_COND;
  sched(s); // returns with the mutex granted
  real_pthread_mutex_lock()(m);
  ev(OP_CWOKEN, co, mo);
  return s->timedout ? ETIMEDOUT : 0;
}

static uint64_t abs_to_deadline(clockid_t clk, const struct timespec *ts) {
  (void)clk;
  uint64_t a = (uint64_t)ts->tv_sec * 1000000000ULL + (uint64_t)ts->tv_nsec;
  return a > CLOCK_BASE_NS ? a - CLOCK_BASE_NS : 0;
}

extern "C" int pthread_cond_wait(pthread_cond_t *c, pthread_mutex_t *m) {
  if (!g_active || !tl_self) return real_pthread_cond_wait()(c, m);
  return cond_wait_common(c, m, false, 0);
}
extern "C" int pthread_cond_timedwait(pthread_cond_t *c, pthread_mutex_t *m, const struct timespec *ts) {
  if (!g_active || !tl_self) return real_pthread_cond_timedwait()(c, m, ts);
  return cond_wait_common(c, m, true, abs_to_deadline(CLOCK_REALTIME, ts));
}
extern "C" int pthread_cond_clockwait(pthread_cond_t *c, pthread_mutex_t *m, clockid_t clk, const struct timespec *ts) {
  if (!g_active || !tl_self) return real_pthread_cond_clockwait()(c, m, clk, ts);
  return cond_wait_common(c, m, true, abs_to_deadline(clk, ts));
}

extern "C" int pthread_cond_broadcast(pthread_cond_t *c) {
  Thr *s = tl_self;
  if (!g_active || !s) return real_pthread_cond_broadcast()(c);
  int co = cond_ord(c);
  CondRec &cr = g_cond[co];
  if (cr.nw == 0) g_res.bcast_no_waiter++;
  ev(OP_BCAST, co, cr.nw);
  for (int k = 0; k < cr.nw; k++) g_thr[cr.waiters[k]].state = T_REACQUIRE;
  cr.nw = 0;
  s->state = T_RUNNABLE;
  sched(s);
  return 0;
}

extern "C" int pthread_cond_signal(pthread_cond_t *c) {
  Thr *s = tl_self;
  if (!g_active || !s) return real_pthread_cond_signal()(c);
  int co = cond_ord(c);
  CondRec &cr = g_cond[co];
  if (cr.nw == 0) g_res.bcast_no_waiter++;
  int pick = -1;
  if (cr.nw == 1) pick = 0;
  else if (cr.nw > 1) { pick = (int)decide((uint32_t)cr.nw, (uint32_t)g_rng.below((uint64_t)cr.nw)); g_res.signal_choices++; }
  ev(OP_SIGNAL, co, pick);
  if (pick >= 0) {
    g_thr[cr.waiters[pick]].state = T_REACQUIRE;
    for (int j = pick; j + 1 < cr.nw; j++) cr.waiters[j] = cr.waiters[j + 1];
    cr.nw--;
  }
  s->state = T_RUNNABLE;
  sched(s);
  return 0;
}

extern "C" int sched_yield(void) {
  Thr *s = tl_self;
  if (!g_active || !s) return real_sched_yield()();
  ev(OP_YIELD, 0, 0);
  s->state = T_RUNNABLE;
  sched(s);
  return 0;
}

static void sim_sleep_ns(uint64_t ns) {
  Thr *s = tl_self;
  ev(OP_SLEEP, 0, (int)(ns > 0x7fffffff ? 0x7fffffff : ns));
  s->deadline = g_now_ns + ns;
  s->state = T_SLEEPING;
  sched(s);
}
extern "C" int nanosleep(const struct timespec *req, struct timespec *rem) {
  if (!g_active || !tl_self) return real_nanosleep()(req, rem);
  sim_sleep_ns((uint64_t)req->tv_sec * 1000000000ULL + (uint64_t)req->tv_nsec);
  if (rem) { rem->tv_sec = 0; rem->tv_nsec = 0; }
  return 0;
}
extern "C" int clock_nanosleep(clockid_t clk, int flags, const struct timespec *req, struct timespec *rem) {
  if (!g_active || !tl_self) return real_clock_nanosleep()(clk, flags, req, rem);
  uint64_t ns = (uint64_t)req->tv_sec * 1000000000ULL + (uint64_t)req->tv_nsec;
  if (flags & TIMER_ABSTIME) { uint64_t d = abs_to_deadline(clk, req); ns = d > g_now_ns ? d - g_now_ns : 0; }
  sim_sleep_ns(ns);
  if (rem) { rem->tv_sec = 0; rem->tv_nsec = 0; }
  return 0;
}
extern "C" int usleep(useconds_t us) {
  if (!g_active || !tl_self) return real_usleep()(us);
  sim_sleep_ns((uint64_t)us * 1000ULL);
  return 0;
}
extern "C" int clock_gettime(clockid_t clk, struct timespec *ts) {
  if (!g_active || !tl_self) return (int)syscall(SYS_clock_gettime, clk, ts);
  uint64_t t = CLOCK_BASE_NS + g_now_ns;
  ts->tv_sec = (time_t)(t / 1000000000ULL); ts->tv_nsec = (long)(t % 1000000000ULL);
  return 0;
}

// ---------------------------------------------------------------------------------------------
// optional fine-grained preemption: -fsanitize-coverage=trace-pc-guard in opted-in TUs only
// ---------------------------------------------------------------------------------------------
extern "C" void __sanitizer_cov_trace_pc_guard_init(uint32_t *start, uint32_t *stop) {
  static uint32_t n = 0;
  if (start == stop || *start) return;
  for (uint32_t *g = start; g < stop; g++) *g = ++n;
}
extern "C" void __sanitizer_cov_trace_pc_guard(uint32_t *guard) {
  Thr *s = tl_self;
  if (!g_active || !s || g_cfg.pcguard_permille <= 0 || s->state != T_RUNNABLE) return;
  uint64_t h = ++s->guard_hits;
  uint64_t x = mix64(g_cfg.pcguard_seed ^ ((uint64_t)s->ord << 56), h ^ ((uint64_t)*guard << 32));
  if ((int)(x % 1000) >= g_cfg.pcguard_permille) return;
  g_res.preempts++;
  ev(OP_PREEMPT, (int)*guard, 0);
  sched(s);
}

// ---------------------------------------------------------------------------------------------
// death callback (runs while a sanitizer is dying: plain C, no instrumented code, no allocation)
// ---------------------------------------------------------------------------------------------
extern "C" void __sanitizer_set_death_callback(void (*)(void)) __attribute__((weak));
static char g_death_spec_buf[8192];
static volatile int g_death_has_spec = 0;
static unsigned long long g_death_run_no = 0;
static int g_death_out_fd = 1;
static void sim_death_cb(void) {
  g_active = 0; // no more scheduling points
  if (!g_death_has_spec) return;
  static char line[65536];
  size_t p = 0;
  p += (size_t)snprintf(line + p, sizeof line - p, "\n{\"partial\":%llu,\"steps\":%llu,\"spec\":\"", g_death_run_no, (unsigned long long)g_seq);
  for (const char *c = g_death_spec_buf; *c && p + 8 < sizeof line; c++) {
    if (*c == '"' || *c == '\\') line[p++] = '\\';
    line[p++] = ((unsigned char)*c < 0x20) ? ' ' : *c;
  }
  p += (size_t)snprintf(line + p, sizeof line - p, "\",\"trace\":\"");
  size_t n = g_trace_len;
  while (n && g_trace_out[n - 1] == 0) n--;
  for (size_t i = 0; i < n && p + 16 < sizeof line; i++) p += (size_t)snprintf(line + p, sizeof line - p, i ? ":%u" : "%u", g_trace_out[i]);
  p += (size_t)snprintf(line + p, sizeof line - p, "\"}\n");
  ssize_t w = write(g_death_out_fd, line, p); (void)w;
}
extern "C" void sim_install_death_cb(void) { if (&__sanitizer_set_death_callback) __sanitizer_set_death_callback(sim_death_cb); }
extern "C" void sim_set_death_info(const char *spec, unsigned long long run, int fd) {
  g_death_has_spec = 0;
  if (!spec) return;
  strncpy(g_death_spec_buf, spec, sizeof g_death_spec_buf - 1); g_death_spec_buf[sizeof g_death_spec_buf - 1] = 0;
  g_death_run_no = run; g_death_out_fd = fd;
  g_death_has_spec = 1;
}
