#!/usr/bin/env python3
"""selftest-mutants: apply each hand-written mutant to a scratch copy of /repo (under /tmp, removed
afterwards) and require the quick tier of the named property to report it."""
import os
import shutil
import subprocess
import sys
import time

VERIF = os.path.dirname(os.path.dirname(os.path.abspath(__file__)))
sys.path.insert(0, os.path.join(VERIF, "selftest"))
import mutants as M  # noqa: E402

SCRATCH = "/tmp/verif-mutant-repo"


def fresh_copy():
    if os.path.exists(SCRATCH):
        shutil.rmtree(SCRATCH)
    os.makedirs(SCRATCH)
    p1 = subprocess.Popen(["git", "-C", "/repo", "archive", "HEAD"], stdout=subprocess.PIPE)
    subprocess.check_call(["tar", "-x", "-C", SCRATCH], stdin=p1.stdout)
    p1.wait()
    # uncommitted hook/fix edits in the working tree are part of "the current tree"
    r = subprocess.run(["git", "-C", "/repo", "diff", "HEAD"], capture_output=True)
    if r.stdout.strip():
        subprocess.run(["patch", "-p1", "-d", SCRATCH], input=r.stdout, check=True, capture_output=True)


def apply(mid, file, old, new):
    p = os.path.join(SCRATCH, file)
    s = open(p).read()
    if old not in s:
        raise SystemExit("mutant %s: pattern not found in %s" % (mid, file))
    open(p, "w").write(s.replace(old, new, 1))


def main():
    only = set(sys.argv[1:])
    results = []
    for mid, prop, file, old, new, note in M.MUTANTS:
        if only and mid not in only and prop not in only:
            continue
        fresh_copy()
        apply(mid, file, old, new)
        for f2, o2, n2 in M.EXTRAS.get(mid, []):
            apply(mid, f2, o2, n2)
        env = dict(os.environ, VERIF_REPO=SCRATCH, VERIF_EVIDENCE_DIR="/tmp/verif-mutant-evidence", VERIF_REPLAY_DIR="/tmp/verif-mutant-replays")
        t0 = time.time()
        r = subprocess.run([os.path.join(VERIF, "bin", "check"), prop, "--tier", "quick"], capture_output=True, text=True, env=env)
        vio = [l for l in r.stdout.splitlines() if l.startswith("VIOLATION property=%s " % prop)]
        cls = [l.strip() for l in r.stdout.splitlines() if l.strip().startswith("class=")]
        ok = r.returncode == 1 and bool(vio)
        results.append((mid, prop, ok, r.returncode, time.time() - t0, (cls[0] if cls else r.stdout.strip().splitlines()[-1:] )))
        print("%-4s %-3s %-8s rc=%d %.0fs  %s  [%s]" % (mid, prop, "CAUGHT" if ok else "MISSED", r.returncode, time.time() - t0, cls[0] if cls else (r.stdout.strip().splitlines() or [""])[-1], note), flush=True)
        if not ok and os.environ.get("MUT_VERBOSE"):
            print(r.stdout[-2000:], r.stderr[-2000:])
    shutil.rmtree(SCRATCH, ignore_errors=True)
    shutil.rmtree("/tmp/verif-mutant-evidence", ignore_errors=True)
    shutil.rmtree("/tmp/verif-mutant-replays", ignore_errors=True)
    missed = [r for r in results if not r[2]]
    print("mutants: %d caught, %d missed" % (len(results) - len(missed), len(missed)))
    return 1 if missed else 0


if __name__ == "__main__":
    sys.exit(main())
