"""Hand-written property-breaking patches (DESIGN Appendix C).  Applied to a scratch copy only."""
W = "parallel/Worker.hpp"
BL = "StringDictionaryHASHRPDACBlocks.cpp"

MUTANTS = [
    # id, property, file, old, new, note
    ("M1", "C10", W, "      queue.add_task(task);\n    }\n    queue_cv.notify_all();", "      queue.add_task(task);\n    }", "add_task never notifies"),
    ("M2", "C10", W, "        w->stop();\n    }\n    queue_cv.notify_all();", "        w->stop();\n    }\n    queue_cv.notify_one();", "stop notifies one worker only, and exiting workers do not pass it on"),
    ("M3", "C10", W, "queue_cv.wait(ul, [this]() { return stopped() || !queue.empty(); });", "if (!ready) queue_cv.wait(ul);", "predicate evaluated before taking shared_mutex"),
    ("M4", "C10", W, "      if (queue.empty())\n        continue;\n      auto task = queue.pop();\n      ul.unlock();", "      ul.unlock();\n      if (queue.empty())\n        continue;\n      auto task = queue.pop();", "pop outside shared_mutex"),
    ("M5", "C10", W, "      if (stopped() && queue.empty())\n        break;", "      if (stopped())\n        break;", "worker exits on stop with tasks queued"),
    ("M5b", "C10", W, "    while (!stopped() || !queue.empty()) {", "    while (!stopped()) {", "loop head ignores queue after stop"),
    ("M0", "C10", W, "    {\n      std::lock_guard lg(shared_mutex);\n      queue.add_task(task);\n    }", "    queue.add_task(task);", "revert of the lost wake-up fix (add_task)"),
    ("M0b", "C10", W, "    {\n      std::lock_guard lg(shared_mutex);\n      for (auto &w : workers)\n        w->stop();\n    }", "    for (auto &w : workers)\n      w->stop();", "revert of the lost wake-up fix (stop)"),
    ("M6", "C09", BL, "              parts[next_part_index] = sd;", "              parts[parts_done] = sd;", "blocks stored in completion order instead of the reserved slot"),
    ("M7", "C09", BL, "      starting_indexes.push_back(strings_qty);\n", "      first_id = strings_qty;\n", "starting index pushed from the worker, in completion order"),
    ("M8", "C09", BL, "new StringDictionaryHASHRPDAC(sub_it, 0, overhead);\n            {", "new StringDictionaryHASHRPDAC(sub_it, 0, overhead + (int)parts_done);\n            {", "block parameter read from shared progress counter"),
    ("M9", "C11", BL, "              std::lock_guard lg(m);\n              parts[next_part_index] = sd;", "              parts[next_part_index] = sd;", "completion lambda without lock"),
    ("M10", "C11", W, "  bool stopped() {\n    std::lock_guard lg(mutex_stop);", "  bool stopped() {", "stopped() reads flag without lock"),
    ("M11", "C11", "Hash/HashDAC.cpp", "  uint *bitmap = new uint[b_size];\n  for (size_t i = 0; i < b_size; i++)", "  static uint *bitmap = nullptr; static size_t cap = 0;\n  if (cap < b_size) { delete[] bitmap; bitmap = new uint[b_size]; cap = b_size; }\n  for (size_t i = 0; i < b_size; i++)", "static scratch bitmap shared by block builders"),
]
# M6 needs the lambda to append instead of filling the slot
M2_EXTRA = (W, "      task();\n    }\n    queue_cv.notify_all();", "      task();\n    }")
M3_EXTRA = (W, "      std::unique_lock<std::mutex> ul(shared_mutex);", "      bool ready = stopped() || !queue.empty();\n      std::unique_lock<std::mutex> ul(shared_mutex);")
M7_EXTRA = [(BL, "              parts[next_part_index] = sd;", "              parts[next_part_index] = sd;\n              starting_indexes.push_back(first_id);"),
            (BL, "  bool sample_next = true;", "  bool sample_next = true;\n  unsigned long first_id = 0;"),
            (BL, "[this, next_part_index, sub_it, overhead, &m, &parts_done, &cv]", "[this, next_part_index, first_id, sub_it, overhead, &m, &parts_done, &cv]")]
M11_EXTRA = ("Hash/HashDAC.cpp", "  delete[] bitmap;\n  delete[] hashtable;", "  delete[] hashtable;")
EXTRAS = {"M2": [M2_EXTRA], "M3": [M3_EXTRA], "M7": M7_EXTRA, "M11": [M11_EXTRA]}
