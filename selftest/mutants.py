"""Hand-written property-breaking patches (DESIGN Appendix C).  Applied to a scratch copy only."""
W = "parallel/Worker.hpp"
BL = "StringDictionaryHASHRPDACBlocks.cpp"

MUTANTS = [
    # id, property, file, old, new, note
    ("M1", "C10", W, "      queue.add_task(task);\n    }\n    queue_cv.notify_all();", "      queue.add_task(task);\n    }", "add_task never notifies"),
    ("M2", "C10", W, "        w->stop();\n    }\n    queue_cv.notify_all();", "        w->stop();\n    }\n    queue_cv.notify_one();", "stop notifies one worker only, and exiting workers do not pass it on"),
    ("M3", "C10", W, "queue_cv.wait(ul, [this]() { return stopped() || !queue.empty(); });", "if (!ready) queue_cv.wait(ul);", "predicate evaluated before taking shared_mutex"),
    ("M4", "C10", W, "      if (queue.empty())\n        continue;\n      auto task = queue.pop();\n      ul.unlock();", "      ul.unlock();\n      if (queue.empty())\n        continue;\n      auto task = queue.pop();", "pop outside shared_mutex"),
    ("M5", "C10", W, "      if (stopped() && queue.empty())\n        break;", "      if (stopped())\n        break;", "worker exits on stop with tasks queued"),
    ("M5b", "C10", W, "    while (!stopped() || !queue.empty()) {", "    while (!stopped()) {", "loop head ignores queue after stop"),
    ("M0", "C10", W, "    {\n      std::lock_guard lg(shared_mutex);\n      queue.add_task(task);\n    }", "    queue.add_task(task);", "revert of the lost wake-up fix (add_task)"),
    ("M0b", "C10", W, "    {\n      std::lock_guard lg(shared_mutex);\n      for (auto &w : workers)\n        w->stop();\n    }", "    for (auto &w : workers)\n      w->stop();", "revert of the lost wake-up fix (stop)"),
    ("M6", "C09", BL, "              parts[next_part_index] = sd;", "              parts[parts_done] = sd;", "blocks stored in completion order instead of the reserved slot"),
    ("M7", "C09", BL, "      starting_indexes.push_back(strings_qty);\n", "      first_id = strings_qty;\n", "starting index pushed from the worker, in completion order"),
    ("M8", "C09", BL, "new StringDictionaryHASHRPDAC(sub_it, 0, overhead);\n            {", "new StringDictionaryHASHRPDAC(sub_it, 0, overhead + (int)parts_done);\n            {", "block parameter read from shared progress counter"),
    ("M9", "C11", BL, "              std::lock_guard lg(m);\n              parts[next_part_index] = sd;", "              parts[next_part_index] = sd;", "completion lambda without lock"),
    ("M10", "C11", W, "  bool stopped() {\n    std::lock_guard lg(mutex_stop);", "  bool stopped() {", "stopped() reads flag without lock"),
    ("M11", "C11", "Hash/HashDAC.cpp", "  uint *bitmap = new uint[b_size];\n  for (size_t i = 0; i < b_size; i++)", "  static uint *bitmap = nullptr; static size_t cap = 0;\n  if (cap < b_size) { delete[] bitmap; bitmap = new uint[b_size]; cap = b_size; }\n  for (size_t i = 0; i < b_size; i++)", "static scratch bitmap shared by block builders"),
]
# M6 needs the lambda to append instead of filling the slot
MUTANTS += [
    ("M12", "C14", "StringDictionaryPFC.cpp", "uchar *StringDictionaryPFC::extract(size_t id, uint *strLen) {\n  if ((id > 0) && (id <= elements)) {\n", "static size_t lastId = 0; static uint lastLen = 0; static uchar lastStr[8192];\nuchar *StringDictionaryPFC::extract(size_t id, uint *strLen) {\n  if (id != 0 && id == lastId) { uchar *c = new uchar[lastLen + 1]; memcpy(c, lastStr, lastLen + 1); *strLen = lastLen; return c; }\n  if ((id > 0) && (id <= elements)) {\n", "result cache keyed by id only, shared by all PFC instances"),
    ("M13", "C14", "RePair/RePair.cpp", "  str[strLen] = 0;\n\n  return cmp;\n}\n\nint RePair::extractStringAndCompareDAC", "  if (cmp != 0) str[strLen] = 0;\n\n  return cmp;\n}\n\nint RePair::extractStringAndCompareDAC", "terminator only restored after a failed comparison"),
    ("M14", "C08", "StringDictionaryPFC.cpp", "  saveValue<uchar>(out, textStrings, bytesStrings);\n", "  saveValue<uchar>(out, textStrings, bytesStrings);\n  if (bytesStrings > 8 && textStrings[bytesStrings - 2] != 0) textStrings[bytesStrings - 2] ^= 1;\n", "save flips a byte of the object after writing it"),
    ("M15", "C08", "utils/LogSequence.cpp", "  array = new size_t[arraysize];\n  for (size_t i = 0; i < arraysize; i++)\n    array[i] = 0;\n\n  for (size_t i = 0; i < numentries; i++)", "  array = new size_t[arraysize];\n  for (size_t i = 0; i + 1 < arraysize; i++)\n    array[i] = 0;\n  if (arraysize) array[arraysize - 1] &= ~(size_t)0 << ((numbits * numentries) % 64 ? (numbits * numentries) % 64 : 0);\n\n  for (size_t i = 0; i < numentries; i++)", "last word of a packed array only cleared below the used bits"),
    ("M16", "C06", "StringDictionaryPFC.cpp", "  dict->buckets = loadValue<uint32_t>(in);", "  dict->buckets = (uint32_t)loadValue<uint64_t>(in);", "loader reads a 32-bit field as 64 bits"),
    ("M17", "C06", "StringDictionaryRPDAC.cpp", "  dict->maxlength = loadValue<uint32_t>(in);", "  loadValue<uint32_t>(in);", "loader forgets maxlength"),
    ("M18", "C16", "StringDictionaryRPDAC.cpp", "  if (type != RPDAC)\n    return NULL;", "  if (type != RPDAC && type != PFC)\n    return NULL;", "RPDAC loader also accepts PFC images"),
    ("M19", "C16", "StringDictionaryPFC.cpp", "IteratorDictID *StringDictionaryPFC::locateSubstr(uchar *, uint) {\n  std::cerr << \"This dictionary does not provide substring location\"\n            << std::endl;\n  return NULL;", "IteratorDictID *StringDictionaryPFC::locateSubstr(uchar *, uint) {\n  std::cerr << \"This dictionary does not provide substring location\"\n            << std::endl;\n  return new IteratorDictIDContiguous(1, 1);", "stub fabricates an iterator"),
    ("M20", "C07", "utils/Utils.h", "  uchar *xarr = new uchar[llen];\n  memcpy(xarr, *array, len);", "  uchar *xarr = new uchar[llen];\n  memcpy(xarr, *array, llen);", "Reallocate copies twice the old length"),
]
M12_EXTRA = ("StringDictionaryPFC.cpp", "    *strLen = decLen;\n    return decoded;\n  } else {\n    *strLen = 0;\n    return NULL;\n  }\n}\n\nIteratorDictID *StringDictionaryPFC::locatePrefix", "    *strLen = decLen;\n    if (decLen < 8192) { lastId = id; lastLen = decLen; memcpy(lastStr, decoded, decLen + 1); }\n    return decoded;\n  } else {\n    *strLen = 0;\n    return NULL;\n  }\n}\n\nIteratorDictID *StringDictionaryPFC::locatePrefix")
M2_EXTRA = (W, "      task();\n    }\n    queue_cv.notify_all();", "      task();\n    }")
M3_EXTRA = (W, "      std::unique_lock<std::mutex> ul(shared_mutex);", "      bool ready = stopped() || !queue.empty();\n      std::unique_lock<std::mutex> ul(shared_mutex);")
M7_EXTRA = [(BL, "              parts[next_part_index] = sd;", "              parts[next_part_index] = sd;\n              starting_indexes.push_back(first_id);"),
            (BL, "  bool sample_next = true;", "  bool sample_next = true;\n  unsigned long first_id = 0;"),
            (BL, "[this, next_part_index, sub_it, overhead, &m, &parts_done, &cv]", "[this, next_part_index, first_id, sub_it, overhead, &m, &parts_done, &cv]")]
M11_EXTRA = ("Hash/HashDAC.cpp", "  delete[] bitmap;\n  delete[] hashtable;", "  delete[] hashtable;")
EXTRAS = {"M2": [M2_EXTRA], "M3": [M3_EXTRA], "M7": M7_EXTRA, "M12": [M12_EXTRA], "M11": [M11_EXTRA]}
