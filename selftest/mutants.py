"""Hand-written property-breaking patches (DESIGN Appendix C).  Applied to a scratch copy only."""
W = "parallel/Worker.hpp"
BL = "StringDictionaryHASHRPDACBlocks.cpp"

MUTANTS = [
    # id, property, file, old, new, note
    ("M1", "C10", W, "      queue.add_task(task);\n    }\n    queue_cv.notify_all();", "      queue.add_task(task);\n    }", "add_task never notifies"),
    ("M2", "C10", W, "        w->stop();\n    }\n    queue_cv.notify_all();", "        w->stop();\n    }\n    queue_cv.notify_one();", "stop notifies one worker only"),
    ("M3", "C10", W, "queue_cv.wait(ul, [this]() { return stopped() || !queue.empty(); });", "if (!(stopped() || !queue.empty())) queue_cv.wait(ul);", "wait without predicate loop"),
    ("M4", "C10", W, "      if (queue.empty())\n        continue;\n      auto task = queue.pop();\n      ul.unlock();", "      ul.unlock();\n      if (queue.empty())\n        continue;\n      auto task = queue.pop();", "pop outside shared_mutex"),
    ("M5", "C10", W, "      if (stopped() && queue.empty())\n        break;", "      if (stopped())\n        break;", "worker exits on stop with tasks queued"),
    ("M5b", "C10", W, "    while (!stopped() || !queue.empty()) {", "    while (!stopped()) {", "loop head ignores queue after stop"),
    ("M0", "C10", W, "    {\n      std::lock_guard lg(shared_mutex);\n      queue.add_task(task);\n    }", "    queue.add_task(task);", "revert of the lost wake-up fix (add_task)"),
    ("M0b", "C10", W, "    {\n      std::lock_guard lg(shared_mutex);\n      for (auto &w : workers)\n        w->stop();\n    }", "    for (auto &w : workers)\n      w->stop();", "revert of the lost wake-up fix (stop)"),
    ("M6", "C09", BL, "        next_part_index = parts.size();\n        parts.push_back(nullptr);", "        next_part_index = parts.size();", "no slot reservation ..."),
    ("M7", "C09", BL, "return parts_done == parts.size();", "return parts_done >= 1 || parts.size() == 0;", "final wait weakened"),
    ("M8", "C09", BL, "return parts_done == parts.size(); });\n  wpool.stop_all_workers();", "return parts_done + 1 >= parts.size(); });\n  wpool.stop_all_workers();", "final wait off by one (pool still drains before join)"),
    ("M9", "C11", BL, "              std::lock_guard lg(m);\n              parts[next_part_index] = sd;", "              parts[next_part_index] = sd;", "completion lambda without lock"),
    ("M10", "C11", W, "  bool stopped() {\n    std::lock_guard lg(mutex_stop);", "  bool stopped() {", "stopped() reads flag without lock"),
    ("M11", "C11", "Hash/HashDAC.cpp", "  uint *bitmap = new uint[b_size];\n  for (size_t i = 0; i < b_size; i++)", "  static uint *bitmap = nullptr; static size_t cap = 0;\n  if (cap < b_size) { delete[] bitmap; bitmap = new uint[b_size]; cap = b_size; }\n  for (size_t i = 0; i < b_size; i++)", "static scratch bitmap shared by block builders"),
]
# M6 needs the lambda to append instead of filling the slot
M6_EXTRA = (BL, "              parts[next_part_index] = sd;", "              parts.push_back(sd); (void)next_part_index;")
M11_EXTRA = ("Hash/HashDAC.cpp", "  delete[] bitmap;\n  delete[] hashtable;", "  delete[] hashtable;")
EXTRAS = {"M6": [M6_EXTRA], "M11": [M11_EXTRA]}
