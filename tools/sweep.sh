#!/bin/bash
# triage sweep: every history check, several seeds, thorough catalogue; prints TRIAGE lines only
out=${1:-/verif/sweeps/out}; mkdir -p $out
for seed in 11 22 33; do
  for c in C07 C06 C08 C14 C16; do
    VERIF_SEED=$seed VERIF_TRIAGE=1 VERIF_EVIDENCE_DIR=$out/ev VERIF_REPLAY_DIR=$out/rp bin/check $c --tier thorough --runs ${RUNS:-20000} --budget ${BUDGET:-420} > $out/$c-$seed.log 2>&1
  done
done
