#!/usr/bin/env python3
"""Binary-safe, line-ending-preserving exact replacement:  edit.py FILE  (reads OLD and NEW from a
python literal file given as 2nd arg: a list of [old, new] pairs with \\n line ends)."""
import ast
import sys

path, spec = sys.argv[1], sys.argv[2]
data = open(path, "rb").read()
crlf = b"\r\n" in data
pairs = ast.literal_eval(open(spec).read())
for old, new in pairs:
    o = old.encode()
    n = new.encode()
    if crlf:
        o = o.replace(b"\n", b"\r\n")
        n = n.replace(b"\n", b"\r\n")
    if data.count(o) != 1:
        sys.exit("pattern occurs %d times in %s: %r" % (data.count(o), path, old[:60]))
    data = data.replace(o, n)
open(path, "wb").write(data)
