#!/bin/bash
# false-alarm sweep: every registered check, quick tier, base seeds 1..N on the current tree
out=${1:-/verif/sweeps/fa}; mkdir -p $out; N=${N:-20}
for seed in $(seq 1 $N); do
  for c in C10 C09 C11 C14 C08 C06 C16 C07; do
    VERIF_SEED=$seed VERIF_EVIDENCE_DIR=$out/ev VERIF_REPLAY_DIR=$out/rp bin/check $c --tier quick > $out/$c-$seed.log 2>&1; echo "$c seed=$seed rc=$? $(tail -1 $out/$c-$seed.log | cut -c1-150)" >> $out/summary.txt
  done
done
