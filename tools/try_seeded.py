#!/usr/bin/env python3
"""try_seeded.py <patch.diff> <Cxx> [<Cxx>...] [--tier quick] : scratch copy of /repo HEAD + patch;
(1) the repository's own build and 12 tests must pass, (2) the named checks run against the copy.
The copy (and its build output) is removed afterwards."""
import os
import shutil
import subprocess
import sys
import time

VERIF = os.path.dirname(os.path.dirname(os.path.abspath(__file__)))
patch = os.path.abspath(sys.argv[1])
props = [a for a in sys.argv[2:] if not a.startswith("--")]
skip_tests = "--skip-tests" in sys.argv
scratch = "/tmp/seedchk-%d" % os.getpid()
subprocess.check_call(["git", "-C", "/repo", "worktree", "add", "-q", "--detach", scratch, "HEAD"])
rc_all = 0
try:
    r = subprocess.run(["git", "-C", scratch, "apply", patch], capture_output=True, text=True)
    if r.returncode:
        # patches made against an older HEAD: try with 3-way / fuzz
        r = subprocess.run(["patch", "-p1", "-d", scratch, "-i", patch], capture_output=True, text=True)
        if r.returncode:
            print("PATCH DOES NOT APPLY:", r.stdout[-500:], r.stderr[-500:])
            sys.exit(3)
    if not skip_tests:
        t0 = time.time()
        b = subprocess.run("cmake -G Ninja -S . -B _build >/dev/null && cmake --build _build 2>&1 | tail -3", shell=True, cwd=scratch, capture_output=True, text=True)
        t = subprocess.run("ctest --test-dir _build -j8 --timeout 300 2>&1 | tail -4", shell=True, cwd=scratch, capture_output=True, text=True)
        ok = "100% tests passed" in t.stdout
        print("repo tests with patch: %s (%.0fs)" % ("PASS" if ok else "FAIL", time.time() - t0))
        if not ok:
            print(b.stdout[-600:], t.stdout[-600:])
        shutil.rmtree(os.path.join(scratch, "_build"), ignore_errors=True)
    for p in props:
        env = dict(os.environ, VERIF_REPO=scratch, VERIF_EVIDENCE_DIR="/tmp/seedchk-ev", VERIF_REPLAY_DIR="/tmp/seedchk-rp")
        t0 = time.time()
        r = subprocess.run([os.path.join(VERIF, "bin", "check"), p, "--tier", "quick"], capture_output=True, text=True, env=env)
        lines = [l for l in r.stdout.splitlines() if l.startswith(("VIOLATION", "  class", "UNREPRO", "NONDET", p))]
        print("== %s rc=%d (%.0fs)" % (p, r.returncode, time.time() - t0))
        for l in lines[:8]:
            print("   " + l[:300])
        if r.returncode == 1:
            rc_all = 1
finally:
    subprocess.run(["git", "-C", "/repo", "worktree", "remove", "--force", scratch])
    shutil.rmtree("/tmp/seedchk-ev", ignore_errors=True)
sys.exit(0 if rc_all else 4)
