#!/bin/bash
# final validation on the committed code: false-alarm sweep, then every thorough tier
N=${N:-8} tools/falsealarm.sh /verif/sweeps/fa_final
tools/thorough_all.sh /verif/sweeps/thorough_final
