#!/bin/bash
# validates every thorough tier end to end (exit code, wall time, evidence) without touching committed evidence
out=${1:-/verif/sweeps/thorough}; mkdir -p $out
for c in C10 C09 C11 C14 C08 C06 C16 C07; do
  s=$(date +%s)
  VERIF_EVIDENCE_DIR=$out/ev VERIF_REPLAY_DIR=$out/rp bin/check $c --tier thorough > $out/$c.log 2>&1; rc=$?
  echo "$c rc=$rc wall=$(( $(date +%s)-s ))s $(grep -v KNOWN $out/$c.log | tail -1 | cut -c1-170)" >> $out/summary.txt
done
