#!/bin/bash
# confirm_r5.sh <seeded-id> <agent-demo-dir> [patch-file-name]
# Copies a round-5 sub-agent's deliverables into /verif/seeded/<id>/ and re-confirms the demonstration in a
# fresh scratch worktree of /repo HEAD: run.sh must pass without the patch and fail with it.
set -u
id=$1; src=$2; pf=${3:-patch.diff}
dst=/verif/seeded/$id
mkdir -p "$dst"
cp "$src/$pf" "$dst/patch.diff"
for f in demo.cpp run.sh NOTES.md; do [ -f "$src/$f" ] && cp "$src/$f" "$dst/"; done
[ -f "$dst/NOTES.md" ] && mv "$dst/NOTES.md" "$dst/notes.md"
w=/tmp/confirm-$id
git -C /repo worktree add -q --detach "$w" HEAD || exit 3
mkdir -p "$w/demo"; cp "$dst/demo.cpp" "$dst/run.sh" "$w/demo/" 2>/dev/null
{
  echo "# $id — re-confirmation in a fresh worktree of /repo $(git -C /repo log --format=%h -1)"
  echo "## demo WITHOUT patch"
  ( cd "$w" && timeout 600 bash demo/run.sh "$w" ) 2>&1 | tail -15; rc0=${PIPESTATUS[0]}
  echo "exit=$rc0"
  git -C "$w" apply "$dst/patch.diff" || echo "PATCH DOES NOT APPLY"
  echo "## demo WITH patch"
  ( cd "$w" && timeout 600 bash demo/run.sh "$w" ) 2>&1 | tail -25; rc1=${PIPESTATUS[0]}
  echo "exit=$rc1"
  if [ "$rc0" = 0 ] && [ "$rc1" != 0 ]; then echo "CONFIRMED: passes without, fails with"; else echo "NOT CONFIRMED (without=$rc0 with=$rc1)"; fi
} > "$dst/CONFIRM.log" 2>&1
git -C /repo worktree remove --force "$w"
tail -1 "$dst/CONFIRM.log"
