#!/usr/bin/env python3
"""eval_seeded.py [ids...]: for every /verif/seeded/<id>/patch.diff: scratch worktree of /repo HEAD +
patch, repository tests, then the quick tier of the property's check (plus listed cross-checks);
writes seeded/<id>/meta.json."""
import json, os, re, subprocess, sys, time
VERIF = os.path.dirname(os.path.dirname(os.path.abspath(__file__)))
CROSS = {"C09-2": ["C09", "C11"], "C10-2": ["C10", "C11"], "C09-1": ["C09", "C10"], "C10-r4-3": ["C10", "C09"]}
ids = sys.argv[1:] or sorted(os.listdir(os.path.join(VERIF, "seeded")))
for sid in ids:
    d = os.path.join(VERIF, "seeded", sid)
    if not os.path.exists(os.path.join(d, "patch.diff")):
        continue
    prop = sid.split("-")[0]
    props = CROSS.get(sid, [prop])
    t0 = time.time()
    r = subprocess.run([os.path.join(VERIF, "tools", "try_seeded.py"), os.path.join(d, "patch.diff")] + props, capture_output=True, text=True)
    out = r.stdout
    tests = "PASS" if "repo tests with patch: PASS" in out else ("FAIL" if "repo tests with patch: FAIL" in out else "?")
    res = {}
    for m in re.finditer(r"== (C\d+) rc=(\d+) \((\d+)s\)\n((?:   .*\n)*)", out):
        p, rc, secs, body = m.group(1), int(m.group(2)), int(m.group(3)), m.group(4)
        cls = re.findall(r"class=(\S+)", body)
        res[p] = {"exit": rc, "seconds": secs, "detected": rc == 1 and "VIOLATION property=%s" % p in body, "violation_classes": cls[:6]}
    notes = open(os.path.join(d, "notes.md")).read() if os.path.exists(os.path.join(d, "notes.md")) else ""
    meta = {"id": sid, "breaks_property": prop,
            "needs_to_manifest": notes.strip()[:1500],
            "confirmed": {"repo_tests_with_patch": tests,
                          "demonstration": "fails with the patch, passes without it (see CONFIRM.md / CONFIRM.log in this directory)"},
            "ran": "tools/try_seeded.py seeded/%s/patch.diff %s  (scratch worktree of /repo HEAD + patch; repository build + ctest; bin/check <prop> --tier quick with VERIF_REPO=<scratch>)" % (sid, " ".join(props)),
            "checks": res, "repo_head": subprocess.run(["git", "-C", "/repo", "log", "--format=%h", "-1"], capture_output=True, text=True).stdout.strip(),
            "evaluated_in_s": int(time.time() - t0)}
    json.dump(meta, open(os.path.join(d, "meta.json"), "w"), indent=1)
    print(sid, tests, {p: (v["detected"], v["violation_classes"][:2]) for p, v in res.items()}, flush=True)
