#!/bin/bash
out=${1:-/verif/sweeps/c07}; mkdir -p $out
for seed in 101 202 303 404; do
  VERIF_SEED=$seed VERIF_TRIAGE=1 VERIF_EVIDENCE_DIR=$out/ev VERIF_REPLAY_DIR=$out/rp bin/check C07 --tier thorough --runs ${RUNS:-30000} --budget ${BUDGET:-600} > $out/C07-$seed.log 2>&1
done
