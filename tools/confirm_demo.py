#!/usr/bin/env python3
"""confirm_demo.py <seeded dir>: runs the sh blocks of RUN.md (with patch / without patch) in the
worktree the change was written in and prints the tail of each block's output and its exit status."""
import os, re, subprocess, sys
d = os.path.abspath(sys.argv[1])
md = open(os.path.join(d, "RUN.md")).read()
blocks = re.findall(r"```(?:sh|bash|shell)\n(.*?)```", md, re.S)
wt = re.search(r"(/tmp/wt-C\d+)", d).group(1)
subprocess.run(["git", "-C", wt, "checkout", "--", "."], check=False)
for i, b in enumerate(blocks):
    if "git apply" not in b and "demo" not in b and "ctest" not in b:
        continue
    print("---- block %d ----" % i)
    print("\n".join("   $ " + l for l in b.strip().splitlines()[:12]))
    r = subprocess.run(["bash", "-c", "cd %s\n%s" % (wt, b)], capture_output=True, text=True, timeout=1800)
    out = (r.stdout + r.stderr).strip().splitlines()
    print("   exit=%d" % r.returncode)
    for l in out[-6:]:
        print("   | " + l[:200])
subprocess.run(["git", "-C", wt, "checkout", "--", "."], check=False)
subprocess.run(["git", "-C", wt, "status", "--short"], check=False)
